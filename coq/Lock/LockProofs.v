(* ========================================================================= *)
(*  Sod.Lock.LockProofs : soundness of the decision procedures of LockModel   *)
(*                                                                            *)
(*    deadlock_free  : lock_order_ok p = true -> no reachable stuck state     *)
(*    no_partial_deadlock : ... every unfinished thread can step or waits     *)
(*                     (transitively) for a thread that can step              *)
(*    lockset_drf    : lockset_ok pol p = true -> no reachable race           *)
(*    stuck_example  : a re-entrant read path reaches a stuck state           *)
(*                                                                            *)
(*  No axioms; stdlib only.                                                   *)
(* ========================================================================= *)
From Coq Require Import List Arith Bool String PeanoNat Lia Relations.
From Sod.Lock Require Import LockModel.
Import ListNotations.

(* ------------------------------------------------------------------------- *)
(** * 0. List utilities                                                       *)
(* ------------------------------------------------------------------------- *)

Lemma nth_error_set_nth_eq : forall A (l : list A) n x,
  n < List.length l -> nth_error (set_nth n x l) n = Some x.
Proof.
  intros A l; induction l as [|y l IH]; intros n x Hn; simpl in *; [lia|].
  destruct n as [|n]; simpl; [reflexivity|]. apply IH. lia.
Qed.

Lemma nth_error_set_nth_neq : forall A (l : list A) n m x,
  n <> m -> nth_error (set_nth n x l) m = nth_error l m.
Proof.
  intros A l; induction l as [|y l IH]; intros n m x Hnm; simpl.
  - destruct n; reflexivity.
  - destruct n as [|n]; destruct m as [|m]; simpl; try reflexivity; try congruence.
    apply IH. congruence.
Qed.

Lemma length_set_nth : forall A (l : list A) n x, List.length (set_nth n x l) = List.length l.
Proof.
  intros A l; induction l as [|y l IH]; intros n x; simpl; [destruct n; reflexivity|].
  destruct n; simpl; [reflexivity|]. now rewrite IH.
Qed.

Lemma nth_error_lt : forall A (l : list A) n x, nth_error l n = Some x -> n < List.length l.
Proof. intros A l n x H. apply nth_error_Some. congruence. Qed.

Lemma count_occ_remove_one : forall A (eqd : forall x y : A, {x = y} + {x <> y}) (l : list A) x y,
  count_occ eqd (remove_one eqd x l) y =
  if eqd x y then pred (count_occ eqd l y) else count_occ eqd l y.
Proof.
  intros A eqd l x y. induction l as [|z l IH]; simpl.
  - destruct (eqd x y); reflexivity.
  - destruct (eqd x z) as [Exz|Nxz].
    + subst z. destruct (eqd x y) as [Exy|Nxy]; [reflexivity|reflexivity].
    + simpl. destruct (eqd z y) as [Ezy|Nzy].
      * subst z. destruct (eqd x y) as [Exy|Nxy]; [congruence|]. now rewrite IH.
      * exact IH.
Qed.

Lemma in_remove_one : forall A (eqd : forall x y : A, {x = y} + {x <> y}) (l : list A) x y,
  In y (remove_one eqd x l) -> In y l.
Proof.
  intros A eqd l x y. induction l as [|z l IH]; simpl; [tauto|].
  destruct (eqd x z); simpl; intuition.
Qed.

Lemma in_held_true : forall x h, in_held x h = true <-> In x h.
Proof.
  intros x h. unfold in_held. rewrite existsb_exists. split.
  - intros [y [Hy E]]. destruct (lm_eq_dec x y); [subst; exact Hy|discriminate].
  - intros H. exists x. split; [exact H|]. destruct (lm_eq_dec x x); [reflexivity|congruence].
Qed.

(* ------------------------------------------------------------------------- *)
(** * 1. Thread-local safety (step-indexed) and soundness of the analysis     *)
(* ------------------------------------------------------------------------- *)

(** The held multiset as updated by the thread's own lock events. *)
Definition hupd (h : held) (l : label) : held :=
  match l with
  | LAcq c m => (c, m) :: h
  | LRel c m => remove_one lm_eq_dec (c, m) h
  | _ => h
  end.

Definition exit_can_pop (k : cont) : Prop :=
  match k with KS _ :: _ => True | KBlockEnd :: _ => True | _ => False end.

Section Safe.
  Variable p : program.
  Variable guard : held -> sk -> bool.

  (** What must hold of a thread whose held multiset is [h] and whose
      continuation is [k], looking only at the head of [k]. *)
  Definition good (h : held) (k : cont) : Prop :=
    match k with
    | [] => h = []
    | KS s :: k' =>
        match s with
        | SAcq _ _ => guard h s = true
        | SRel c m => guard h s = true /\ In (c, m) h
        | SGo _ | SHook | SWait | SAcc _ _ _ => guard h s = true
        | SCall f => body p f <> None
        | SExit _ => exit_can_pop k'
        | _ => True
        end
    | _ => True
    end.

  (** [safe_n n h k]: every thread-local execution of at most [n] steps from
      [(h, k)] only visits good states, and so do the threads it spawns. *)
  Fixpoint safe_n (n : nat) (h : held) (k : cont) : Prop :=
    match n with
    | 0 => True
    | S n' =>
        good h k /\
        forall l k', lstep p k l k' ->
          safe_n n' (hupd h l) k' /\
          (forall f, l = LSpawn f -> safe_n n' [] [KS (SCall f)])
    end.

  Definition safe (h : held) (k : cont) : Prop := forall n, safe_n n h k.

  Lemma safe_mono : forall n m h k, m <= n -> safe_n n h k -> safe_n m h k.
  Proof.
    induction n as [|n IH]; intros m h k Hle Hs.
    - assert (m = 0) by lia. subst. exact I.
    - destruct m as [|m]; [exact I|].
      simpl in *. destruct Hs as [Hg Hst]. split; [exact Hg|].
      intros l k' Hl. destruct (Hst l k' Hl) as [H1 H2]. split.
      + apply IH; [lia|exact H1].
      + intros f E. apply IH; [lia|]. apply H2; exact E.
  Qed.

  Lemma safe_good : forall h k, safe h k -> good h k.
  Proof. intros h k H. exact (proj1 (H 1)). Qed.

  Lemma safe_step : forall h k l k', safe h k -> lstep p k l k' -> safe (hupd h l) k'.
  Proof. intros h k l k' H Hl n. exact (proj1 (proj2 (H (S n)) l k' Hl)). Qed.

  Lemma safe_spawn : forall h k f k', safe h k -> lstep p k (LSpawn f) k' -> safe [] [KS (SCall f)].
  Proof. intros h k f k' H Hl n. exact (proj2 (proj2 (H (S n)) _ k' Hl) f eq_refl). Qed.

  (** ** Administrative continuations *)

  Ltac inv H := inversion H; subst; clear H.

  Lemma safe_nil : forall n, safe_n n [] [].
  Proof.
    destruct n as [|n]; simpl; [exact I|]. split; [reflexivity|].
    intros l k' Hl. inv Hl.
  Qed.

  Lemma safe_blockend : forall n h k, safe_n n h k -> safe_n n h (KBlockEnd :: k).
  Proof.
    destruct n as [|n]; intros h k Hs; simpl; [exact I|]. split; [exact I|].
    intros l k' Hl. inv Hl. simpl. split; [|discriminate].
    apply safe_mono with (n := S n); [lia|exact Hs].
  Qed.

  Lemma safe_ret : forall n h k, safe_n n h k -> safe_n n h (KRet :: k).
  Proof.
    destruct n as [|n]; intros h k Hs; simpl; [exact I|]. split; [exact I|].
    intros l k' Hl. inv Hl. simpl. split; [|discriminate].
    apply safe_mono with (n := S n); [lia|exact Hs].
  Qed.

  Lemma safe_exit_skip : forall n h m s k,
    safe_n n h (KS (SExit m) :: k) -> safe_n n h (KS (SExit m) :: KS s :: k).
  Proof.
    destruct n as [|n]; intros h m s k Hs; simpl; [exact I|]. split; [exact I|].
    intros l k' Hl. inv Hl. simpl. split; [|discriminate].
    apply safe_mono with (n := S n); [lia|exact Hs].
  Qed.

  Lemma safe_exit_0 : forall n h k, safe_n n h k -> safe_n n h (KS (SExit 0) :: KBlockEnd :: k).
  Proof.
    destruct n as [|n]; intros h k Hs; simpl; [exact I|]. split; [exact I|].
    intros l k' Hl. inv Hl. simpl. split; [|discriminate].
    apply safe_mono with (n := S n); [lia|exact Hs].
  Qed.

  Lemma safe_exit_S : forall n h m k,
    safe_n n h (KS (SExit m) :: k) -> safe_n n h (KS (SExit (S m)) :: KBlockEnd :: k).
  Proof.
    destruct n as [|n]; intros h m k Hs; simpl; [exact I|]. split; [exact I|].
    intros l k' Hl. inv Hl. simpl. split; [|discriminate].
    apply safe_mono with (n := S n); [lia|exact Hs].
  Qed.

  (** ** Facts about the analysis' bookkeeping *)

  Lemma merge_norm_l : forall a b n h, merge_norm a b = Some n -> a = Some h -> n = Some h.
  Proof.
    intros a b n h Hm Ha. subst a. destruct b as [y|]; simpl in Hm.
    - destruct (held_eq_dec h y); [congruence|discriminate].
    - congruence.
  Qed.

  Lemma merge_norm_r : forall a b n h, merge_norm a b = Some n -> b = Some h -> n = Some h.
  Proof.
    intros a b n h Hm Hb. subst b. destruct a as [x|]; simpl in Hm.
    - destruct (held_eq_dec x h); [congruence|discriminate].
    - congruence.
  Qed.

  Lemma exit_eqb_eq : forall a b, exit_eqb a b = true -> a = b.
  Proof.
    intros [a1 a2] [b1 b2]. unfold exit_eqb. simpl. intros H.
    apply andb_true_iff in H. destruct H as [H1 H2].
    apply Nat.eqb_eq in H1. destruct (held_eq_dec a2 b2); [subst; reflexivity|discriminate].
  Qed.

  Lemma in_add_exits_l : forall a b x, In x a -> In x (add_exits a b).
  Proof.
    induction a as [|y a IH]; intros b x Hin; simpl in *; [tauto|].
    destruct (existsb (exit_eqb y) b) eqn:E.
    - destruct Hin as [->|Hin]; [|apply IH; exact Hin].
      apply existsb_exists in E. destruct E as [z [Hz Ez]].
      apply exit_eqb_eq in Ez. subst z.
      clear IH. induction a as [|w a IHa]; simpl; [exact Hz|].
      destruct (existsb (exit_eqb w) b); [exact IHa|right; exact IHa].
    - destruct Hin as [->|Hin]; [left; reflexivity|right; apply IH; exact Hin].
  Qed.

  Lemma in_add_exits_r : forall a b x, In x b -> In x (add_exits a b).
  Proof.
    induction a as [|y a IH]; intros b x Hin; simpl; [exact Hin|].
    destruct (existsb (exit_eqb y) b); [apply IH; exact Hin|right; apply IH; exact Hin].
  Qed.

  Lemma block_exits_spec : forall es norm n out,
    block_exits es norm = Some (n, out) ->
    (forall h, norm = Some h -> n = Some h) /\
    (forall h, In (0, h) es -> n = Some h) /\
    (forall m h, In (S m, h) es -> In (m, h) out).
  Proof.
    induction es as [|[m0 h0] es IH]; intros norm n out Hb; simpl in Hb.
    - inversion Hb; subst. repeat split; intros; try assumption; simpl in *; tauto.
    - destruct m0 as [|m0].
      + destruct (merge_norm norm (Some h0)) as [n'|] eqn:Em; [|discriminate].
        destruct (IH _ _ _ Hb) as [I1 [I2 I3]]. repeat split.
        * intros h Hn. apply I1. eapply merge_norm_l; eauto.
        * intros h [E|Hin]; [|apply I2; exact Hin].
          inversion E; subst. apply I1. eapply merge_norm_r; eauto.
        * intros m h [E|Hin]; [discriminate|apply I3; exact Hin].
      + destruct (block_exits es norm) as [[n' out']|] eqn:Eb; [|discriminate].
        inversion Hb; subst. destruct (IH _ _ _ Eb) as [I1 [I2 I3]]. repeat split.
        * exact I1.
        * intros h [E|Hin]; [discriminate|apply I2; exact Hin].
        * intros m h [E|Hin]; [inversion E; subst; left; reflexivity|right; apply I3; exact Hin].
  Qed.

  (** ** Soundness of [check_stmt] and [check_call] *)

  (** Spawn targets are safe at all smaller indexes. *)
  Definition spawn_safe (n : nat) : Prop :=
    forall m f, m < n -> is_spawn p f = true -> safe_n m [] [KS (SCall f)].

  Lemma spawn_safe_mono : forall n m, m <= n -> spawn_safe n -> spawn_safe m.
  Proof. intros n m Hle H m' f Hm Hf. apply H; [lia|exact Hf]. Qed.

  Section StmtSound.
    Variable call : fid -> held -> option (option held).
    Hypothesis call_sound : forall f h ro, call f h = Some ro ->
      exists b, body p f = Some b /\
        forall n, spawn_safe n -> forall k,
          (forall h', ro = Some h' -> safe_n n h' k) ->
          safe_n n h (KS b :: KRet :: k).

    Lemma check_stmt_sound : forall s h r,
      check_stmt p guard call h s = Some r ->
      forall n, spawn_safe n -> forall k,
        (forall h', rnorm r = Some h' -> safe_n n h' k) ->
        (forall m h', In (m, h') (rexits r) -> safe_n n h' (KS (SExit m) :: k)) ->
        safe_n n h (KS s :: k).
    Proof.
      induction s as [c m|c m|f|f| | |l w r0| |s1 IH1 s2 IH2|s1 IH1 s2 IH2|b IHb|b IHb|e];
        intros h r Hc.
      - (* SAcq *)
        simpl in Hc. destruct (guard h (SAcq c m)) eqn:Eg; [|discriminate].
        inversion Hc; subst; clear Hc. intros n Hsp k Hn _.
        destruct n as [|n]; simpl; [exact I|]. split; [exact Eg|].
        intros l k' Hl. inv Hl. simpl. split; [|discriminate].
        apply safe_mono with (n := S n); [lia|]. apply Hn. reflexivity.
      - (* SRel *)
        simpl in Hc. destruct (guard h (SRel c m) && in_held (c, m) h) eqn:Eg; [|discriminate].
        apply andb_true_iff in Eg. destruct Eg as [Eg Ein]. apply in_held_true in Ein.
        inversion Hc; subst; clear Hc. intros n Hsp k Hn _.
        destruct n as [|n]; simpl; [exact I|]. split; [split; assumption|].
        intros l k' Hl. inv Hl. simpl. split; [|discriminate].
        apply safe_mono with (n := S n); [lia|]. apply Hn. reflexivity.
      - (* SCall *)
        simpl in Hc. destruct (call f h) as [ro|] eqn:Ec; [|discriminate].
        inversion Hc; subst; clear Hc. intros n Hsp k Hn _.
        destruct (call_sound _ _ _ Ec) as [b [Hb Hs]].
        destruct n as [|n]; simpl; [exact I|]. split; [congruence|].
        intros l k' Hl. inv Hl. simpl. split; [|discriminate].
        match goal with H : body p f = Some ?b0 |- _ => rewrite Hb in H; inversion H; subst end.
        apply Hs; [apply spawn_safe_mono with (n := S n); [lia|exact Hsp]|].
        intros h' E. apply safe_mono with (n := S n); [lia|]. apply Hn. exact E.
      - (* SGo *)
        simpl in Hc. destruct (guard h (SGo f) && is_spawn p f) eqn:Eg; [|discriminate].
        apply andb_true_iff in Eg. destruct Eg as [Eg Esp].
        inversion Hc; subst; clear Hc. intros n Hsp k Hn _.
        destruct n as [|n]; simpl; [exact I|]. split; [exact Eg|].
        intros l k' Hl. inv Hl. simpl. split.
        + apply safe_mono with (n := S n); [lia|]. apply Hn. reflexivity.
        + intros f0 E. inversion E; subst. apply Hsp; [lia|exact Esp].
      - (* SHook *)
        simpl in Hc. destruct (guard h SHook) eqn:Eg; [|discriminate].
        inversion Hc; subst; clear Hc. intros n Hsp k Hn _.
        destruct n as [|n]; simpl; [exact I|]. split; [exact Eg|].
        intros l k' Hl. inv Hl. simpl. split; [|discriminate].
        apply safe_mono with (n := S n); [lia|]. apply Hn. reflexivity.
      - (* SWait *)
        simpl in Hc. destruct (guard h SWait) eqn:Eg; [|discriminate].
        inversion Hc; subst; clear Hc. intros n Hsp k Hn _.
        destruct n as [|n]; simpl; [exact I|]. split; [exact Eg|].
        intros l k' Hl. inv Hl. simpl. split; [|discriminate].
        apply safe_mono with (n := S n); [lia|]. apply Hn. reflexivity.
      - (* SAcc *)
        simpl in Hc. destruct (guard h (SAcc l w r0)) eqn:Eg; [|discriminate].
        inversion Hc; subst; clear Hc. intros n Hsp k Hn _.
        destruct n as [|n]; simpl; [exact I|]. split; [exact Eg|].
        intros l' k' Hl. inv Hl. simpl. split; [|discriminate].
        apply safe_mono with (n := S n); [lia|]. apply Hn. reflexivity.
      - (* SSkip *)
        simpl in Hc. inversion Hc; subst; clear Hc. intros n Hsp k Hn _.
        destruct n as [|n]; simpl; [exact I|]. split; [exact I|].
        intros l k' Hl. inv Hl. simpl. split; [|discriminate].
        apply safe_mono with (n := S n); [lia|]. apply Hn. reflexivity.
      - (* SSeq *)
        simpl in Hc. destruct (check_stmt p guard call h s1) as [r1|] eqn:E1; [|discriminate].
        intros n Hsp k Hn He.
        destruct n as [|n]; simpl; [exact I|]. split; [exact I|].
        intros l k' Hl. inv Hl. simpl. split; [|discriminate].
        assert (Hsp' : spawn_safe n) by (apply spawn_safe_mono with (n := S n); [lia|exact Hsp]).
        destruct (rnorm r1) as [h1|] eqn:En1.
        + destruct (check_stmt p guard call h1 s2) as [r2|] eqn:E2; [|discriminate].
          inversion Hc; subst; clear Hc. simpl in Hn, He.
          apply (IH1 _ _ E1 n Hsp').
          * intros h' E. rewrite En1 in E. inversion E; subst h'.
            apply (IH2 _ _ E2 n Hsp').
            -- intros h'' E'. apply safe_mono with (n := S n); [lia|]. apply Hn. exact E'.
            -- intros m h'' Hin. apply safe_mono with (n := S n); [lia|].
               apply He. apply in_add_exits_r. exact Hin.
          * intros m h' Hin. apply safe_exit_skip.
            apply safe_mono with (n := S n); [lia|].
            apply He. apply in_add_exits_l. exact Hin.
        + inversion Hc; subst; clear Hc.
          apply (IH1 _ _ E1 n Hsp').
          * intros h' E. rewrite En1 in E. discriminate.
          * intros m h' Hin. apply safe_exit_skip.
            apply safe_mono with (n := S n); [lia|]. apply He. exact Hin.
      - (* SAlt *)
        simpl in Hc. destruct (check_stmt p guard call h s1) as [r1|] eqn:E1; [|discriminate].
        destruct (check_stmt p guard call h s2) as [r2|] eqn:E2; [|discriminate].
        destruct (merge_norm (rnorm r1) (rnorm r2)) as [nn|] eqn:Em; [|discriminate].
        inversion Hc; subst; clear Hc. intros n Hsp k Hn He. simpl in Hn, He.
        destruct n as [|n]; simpl; [exact I|]. split; [exact I|].
        assert (Hsp' : spawn_safe n) by (apply spawn_safe_mono with (n := S n); [lia|exact Hsp]).
        intros l k' Hl. inv Hl; simpl; (split; [|discriminate]).
        + apply (IH1 _ _ E1 n Hsp').
          * intros h' E. apply safe_mono with (n := S n); [lia|]. apply Hn.
            eapply merge_norm_l; eauto.
          * intros m h' Hin. apply safe_mono with (n := S n); [lia|].
            apply He. apply in_add_exits_l. exact Hin.
        + apply (IH2 _ _ E2 n Hsp').
          * intros h' E. apply safe_mono with (n := S n); [lia|]. apply Hn.
            eapply merge_norm_r; eauto.
          * intros m h' Hin. apply safe_mono with (n := S n); [lia|].
            apply He. apply in_add_exits_r. exact Hin.
      - (* SLoop *)
        simpl in Hc. destruct (check_stmt p guard call h b) as [rb|] eqn:Eb; [|discriminate].
        assert (Hr : rexits r = rexits rb /\ (forall h', rnorm rb = Some h' -> h' = h)).
        { destruct (rnorm rb) as [h'|] eqn:En.
          - destruct (held_eq_dec h' h); [|discriminate]. inversion Hc; subst. simpl.
            split; [reflexivity|]. intros h'' E. congruence.
          - inversion Hc; subst. simpl. split; [reflexivity|]. intros h'' E. discriminate. }
        destruct Hr as [Hre Hrn]. clear Hc.
        induction n as [|n IHn]; intros Hsp k Hn He; simpl; [exact I|]. split; [exact I|].
        intros l k' Hl. inv Hl. simpl. split; [|discriminate].
        assert (Hsp' : spawn_safe n) by (apply spawn_safe_mono with (n := S n); [lia|exact Hsp]).
        assert (He' : forall m h', In (m, h') (rexits r) -> safe_n n h' (KS (SExit m) :: k)).
        { intros m h' Hin. apply safe_mono with (n := S n); [lia|]. apply He. exact Hin. }
        apply (IHb _ _ Eb n Hsp').
        + intros h' E. rewrite (Hrn _ E). apply IHn; [exact Hsp'| |exact He'].
          intros h'' E'. apply safe_mono with (n := S n); [lia|]. apply Hn. exact E'.
        + intros m h' Hin. apply safe_exit_skip. apply He'. rewrite Hre. exact Hin.
      - (* SBlock *)
        simpl in Hc. destruct (check_stmt p guard call h b) as [rb|] eqn:Eb; [|discriminate].
        destruct (block_exits (rexits rb) (rnorm rb)) as [[nn out]|] eqn:Ebe; [|discriminate].
        inversion Hc; subst; clear Hc. intros n Hsp k Hn He. simpl in Hn, He.
        destruct (block_exits_spec _ _ _ _ Ebe) as [B1 [B2 B3]].
        destruct n as [|n]; simpl; [exact I|]. split; [exact I|].
        intros l k' Hl. inv Hl. simpl. split; [|discriminate].
        assert (Hsp' : spawn_safe n) by (apply spawn_safe_mono with (n := S n); [lia|exact Hsp]).
        apply (IHb _ _ Eb n Hsp').
        + intros h' E. apply safe_blockend.
          apply safe_mono with (n := S n); [lia|]. apply Hn. apply B1. exact E.
        + intros m h' Hin. destruct m as [|m].
          * apply safe_exit_0. apply safe_mono with (n := S n); [lia|].
            apply Hn. apply B2. exact Hin.
          * apply safe_exit_S. apply safe_mono with (n := S n); [lia|].
            apply He. apply B3. exact Hin.
      - (* SExit *)
        simpl in Hc. inversion Hc; subst; clear Hc. intros n Hsp k _ He.
        apply He. simpl. left. reflexivity.
    Qed.
  End StmtSound.

  Lemma check_call_sound : forall fuel f h ro,
    check_call p guard fuel f h = Some ro ->
    exists b, body p f = Some b /\
      forall n, spawn_safe n -> forall k,
        (forall h', ro = Some h' -> safe_n n h' k) ->
        safe_n n h (KS b :: KRet :: k).
  Proof.
    induction fuel as [|fuel IH]; intros f h ro Hc; simpl in Hc; [discriminate|].
    destruct (body p f) as [b|] eqn:Eb; [|discriminate].
    destruct (check_stmt p guard
               (fun f' h' => if f' <? f then check_call p guard fuel f' h' else None) h b)
      as [r|] eqn:Es; [|discriminate].
    destruct (rexits r) as [|x xs] eqn:Er; simpl in Hc; [|discriminate].
    inversion Hc; subst; clear Hc.
    exists b. split; [reflexivity|]. intros n Hsp k Hn.
    eapply check_stmt_sound; [|exact Es|exact Hsp| |].
    - intros f' h' ro' Hcall. cbv beta in Hcall. destruct (f' <? f); [|discriminate]. apply IH. exact Hcall.
    - intros h' E. apply safe_ret. apply Hn. exact E.
    - intros m h' Hin. rewrite Er in Hin. destruct Hin.
  Qed.

  Lemma check_root_safe_n : forall n f,
    spawn_safe n -> check_root p guard f = true -> safe_n n [] [KS (SCall f)].
  Proof.
    intros n f Hsp Hr. unfold check_root in Hr.
    destruct (check_call p guard (S (List.length p)) f []) as [ro|] eqn:Ec; [|discriminate].
    destruct (check_call_sound _ _ _ _ Ec) as [b [Hb Hs]].
    destruct n as [|n]; simpl; [exact I|]. split; [congruence|].
    intros l k' Hl. inv Hl. simpl. split; [|discriminate].
    match goal with H : body p f = Some ?b0 |- _ => rewrite Hb in H; inversion H; subst end.
    apply Hs; [apply spawn_safe_mono with (n := S n); [lia|exact Hsp]|].
    intros h' E. subst ro. destruct h'; [apply safe_nil|discriminate].
  Qed.

  Hypothesis program_ok : check_program p guard = true.

  Lemma root_checked : forall f,
    is_entry p f || is_spawn p f = true -> check_root p guard f = true.
  Proof.
    intros f Hf. unfold check_program in program_ok.
    rewrite forallb_forall in program_ok.
    assert (Hlt : f < List.length p).
    { unfold is_entry, is_spawn in Hf. destruct (nth_error p f) eqn:E.
      - eapply nth_error_lt; eauto.
      - discriminate. }
    specialize (program_ok f). rewrite Hf in program_ok. apply program_ok.
    apply in_seq. lia.
  Qed.

  Lemma roots_safe : forall f, is_entry p f || is_spawn p f = true -> safe [] [KS (SCall f)].
  Proof.
    assert (H : forall n, spawn_safe n /\
                forall f, is_entry p f || is_spawn p f = true -> safe_n n [] [KS (SCall f)]).
    { induction n as [|n [IHsp IHr]].
      - split; [intros m f Hm; lia|intros; exact I].
      - assert (Hsp : spawn_safe (S n)).
        { intros m f Hm Hf. apply safe_mono with (n := n); [lia|].
          apply IHr. rewrite Hf. apply orb_true_r. }
        split; [exact Hsp|]. intros f Hf. apply check_root_safe_n; [exact Hsp|].
        apply root_checked. exact Hf. }
    intros f Hf n. apply H. exact Hf.
  Qed.
End Safe.

(* ------------------------------------------------------------------------- *)
(** * 2. The global invariant and its preservation                            *)
(* ------------------------------------------------------------------------- *)

(** How many times thread [t] holds a lock in write mode (0 or 1). *)
Definition wcount (s : lstate) (t : tid) : nat :=
  match writer s with
  | Some t' => if Nat.eq_dec t' t then 1 else 0
  | None => 0
  end.

(** The statically tracked held multiset [h] of thread [t] is exactly what
    the lock machine says [t] holds. *)
Definition agrees (L : locks) (t : tid) (h : held) : Prop :=
  forall c,
    count_occ lm_eq_dec h (c, R) = count_occ Nat.eq_dec (readers (L c)) t /\
    count_occ lm_eq_dec h (c, W) = wcount (L c) t.

Lemma upd_same : forall L c s, upd L c s c = s.
Proof. intros. unfold upd. destruct (lclass_eq_dec c c); [reflexivity|congruence]. Qed.

Lemma upd_other : forall L c s c', c <> c' -> upd L c s c' = L c'.
Proof. intros. unfold upd. destruct (lclass_eq_dec c c'); [congruence|reflexivity]. Qed.

Lemma lm_neq_RW : forall c c' : lclass, (c, R) <> (c', W).
Proof. intros c c' E. inversion E. Qed.

Ltac inv H := inversion H; subst; clear H.

Ltac cases_upd c c' :=
  unfold upd; destruct (lclass_eq_dec c c') as [?E|?N]; [subst|].

Lemma count_cons_eq : forall (h : held) x, count_occ lm_eq_dec (x :: h) x = S (count_occ lm_eq_dec h x).
Proof. intros. simpl. destruct (lm_eq_dec x x); [reflexivity|congruence]. Qed.

Lemma count_cons_neq : forall (h : held) x y, x <> y -> count_occ lm_eq_dec (x :: h) y = count_occ lm_eq_dec h y.
Proof. intros. simpl. destruct (lm_eq_dec x y); [congruence|reflexivity]. Qed.

Lemma agrees_acq_R : forall L t h c,
  agrees L t h -> agrees (upd L c (add_reader t (L c))) t ((c, R) :: h).
Proof.
  intros L t h c Ha c'. destruct (Ha c') as [H1 H2]. cases_upd c c'.
  - simpl readers. split.
    + rewrite count_cons_eq. simpl. destruct (Nat.eq_dec t t); [|congruence]. now rewrite H1.
    + rewrite count_cons_neq by apply lm_neq_RW. exact H2.
  - split.
    + rewrite count_cons_neq by congruence. exact H1.
    + rewrite count_cons_neq by congruence. exact H2.
Qed.

Lemma agrees_acq_R_other : forall L t t' h c,
  t' <> t -> agrees L t' h -> agrees (upd L c (add_reader t (L c))) t' h.
Proof.
  intros L t t' h c Hne Ha c'. destruct (Ha c') as [H1 H2]. cases_upd c c'.
  - split; [|exact H2]. simpl. destruct (Nat.eq_dec t t'); [congruence|exact H1].
  - split; assumption.
Qed.

Lemma agrees_rel_R : forall L t h c,
  agrees L t h -> agrees (upd L c (del_reader t (L c))) t (remove_one lm_eq_dec (c, R) h).
Proof.
  intros L t h c Ha c'. destruct (Ha c') as [H1 H2]. rewrite !count_occ_remove_one.
  cases_upd c c'.
  - simpl readers. rewrite count_occ_remove_one.
    destruct (lm_eq_dec (c', R) (c', R)); [|congruence].
    destruct (Nat.eq_dec t t); [|congruence].
    destruct (lm_eq_dec (c', R) (c', W)) as [E|_]; [inversion E|].
    split; [now rewrite H1|exact H2].
  - destruct (lm_eq_dec (c, R) (c', R)) as [E|_]; [inversion E; congruence|].
    destruct (lm_eq_dec (c, R) (c', W)) as [E|_]; [inversion E|].
    split; assumption.
Qed.

Lemma agrees_rel_R_other : forall L t t' h c,
  t' <> t -> agrees L t' h -> agrees (upd L c (del_reader t (L c))) t' h.
Proof.
  intros L t t' h c Hne Ha c'. destruct (Ha c') as [H1 H2]. cases_upd c c'.
  - split; [|exact H2]. simpl readers. rewrite count_occ_remove_one.
    destruct (Nat.eq_dec t t'); [congruence|exact H1].
  - split; assumption.
Qed.

Lemma agrees_pending : forall L t t' h c,
  agrees L t' h -> agrees (upd L c (add_pending t (L c))) t' h.
Proof.
  intros L t t' h c Ha c'. destruct (Ha c') as [H1 H2]. cases_upd c c'; split; assumption.
Qed.

Lemma agrees_grant : forall L t h c,
  writer (L c) = None ->
  agrees L t h -> agrees (upd L c (grant_writer t (L c))) t ((c, W) :: h).
Proof.
  intros L t h c Hw Ha c'. destruct (Ha c') as [H1 H2]. cases_upd c c'.
  - split.
    + rewrite count_cons_neq by (intro E; inversion E). exact H1.
    + rewrite count_cons_eq. rewrite H2. unfold wcount. rewrite Hw. simpl.
      destruct (Nat.eq_dec t t); [reflexivity|congruence].
  - split; rewrite count_cons_neq by congruence; assumption.
Qed.

Lemma agrees_grant_other : forall L t t' h c,
  writer (L c) = None -> t' <> t ->
  agrees L t' h -> agrees (upd L c (grant_writer t (L c))) t' h.
Proof.
  intros L t t' h c Hw Hne Ha c'. destruct (Ha c') as [H1 H2]. cases_upd c c'.
  - split; [exact H1|]. rewrite H2. unfold wcount. rewrite Hw. simpl.
    destruct (Nat.eq_dec t t'); [congruence|reflexivity].
  - split; assumption.
Qed.

Lemma agrees_rel_W : forall L t h c,
  writer (L c) = Some t ->
  agrees L t h -> agrees (upd L c (del_writer (L c))) t (remove_one lm_eq_dec (c, W) h).
Proof.
  intros L t h c Hw Ha c'. destruct (Ha c') as [H1 H2]. rewrite !count_occ_remove_one.
  cases_upd c c'.
  - destruct (lm_eq_dec (c', W) (c', R)) as [E|_]; [inversion E|].
    destruct (lm_eq_dec (c', W) (c', W)); [|congruence].
    split; [exact H1|]. rewrite H2. unfold wcount. rewrite Hw. simpl.
    destruct (Nat.eq_dec t t); [reflexivity|congruence].
  - destruct (lm_eq_dec (c, W) (c', R)) as [E|_]; [inversion E|].
    destruct (lm_eq_dec (c, W) (c', W)) as [E|_]; [inversion E; congruence|].
    split; assumption.
Qed.

Lemma agrees_rel_W_other : forall L t t' h c,
  writer (L c) = Some t -> t' <> t ->
  agrees L t' h -> agrees (upd L c (del_writer (L c))) t' h.
Proof.
  intros L t t' h c Hw Hne Ha c'. destruct (Ha c') as [H1 H2]. cases_upd c c'.
  - split; [exact H1|]. rewrite H2. unfold wcount. rewrite Hw. simpl.
    destruct (Nat.eq_dec t t'); [congruence|reflexivity].
  - split; assumption.
Qed.

Lemma agrees_holds_R : forall L t h c, agrees L t h -> In (c, R) h <-> In t (readers (L c)).
Proof.
  intros L t h c Ha. destruct (Ha c) as [H1 _].
  rewrite (count_occ_In lm_eq_dec), (count_occ_In Nat.eq_dec). rewrite H1. tauto.
Qed.

Lemma agrees_holds_W : forall L t h c, agrees L t h -> In (c, W) h <-> writer (L c) = Some t.
Proof.
  intros L t h c Ha. destruct (Ha c) as [_ H2].
  rewrite (count_occ_In lm_eq_dec). rewrite H2. unfold wcount.
  destruct (writer (L c)) as [t'|].
  - destruct (Nat.eq_dec t' t); [subst; split; [reflexivity|lia]|].
    split; [lia|intros E; inversion E; congruence].
  - split; [lia|discriminate].
Qed.

Lemma lstep_acq_head : forall p c m k l k',
  lstep p (KS (SAcq c m) :: k) l k' -> l = LAcq c m /\ k' = k.
Proof. intros p c m k l k' H. inv H. split; reflexivity. Qed.

Lemma lstep_label_acq : forall p k c m k',
  lstep p k (LAcq c m) k' -> k = KS (SAcq c m) :: k'.
Proof. intros p k c m k' H. inv H. reflexivity. Qed.

Lemma lstep_label_rel : forall p k c m k',
  lstep p k (LRel c m) k' -> k = KS (SRel c m) :: k'.
Proof. intros p k c m k' H. inv H. reflexivity. Qed.

Section Invariant.
  Variable p : program.
  Variable guard : held -> sk -> bool.

  Record Inv (c : config) : Prop := {
    inv_thr  : forall t k, nth_error (thr c) t = Some k ->
                 exists h, agrees (lk c) t h /\ safe p guard h k;
    inv_excl : forall c0, writer (lk c c0) <> None -> readers (lk c c0) = [];
    inv_wq   : forall c0 t, In t (wq (lk c c0)) ->
                 exists k, nth_error (thr c) t = Some (KS (SAcq c0 W) :: k);
    inv_dom  : forall c0 t, In t (readers (lk c c0)) \/ writer (lk c c0) = Some t ->
                 t < List.length (thr c)
  }.

  (** Threads after a move of thread [t]. *)
  Lemma thr_step : forall L L' T t k' ,
    (forall t' k0, nth_error T t' = Some k0 -> exists h, agrees L t' h /\ safe p guard h k0) ->
    t < List.length T ->
    (exists h', agrees L' t h' /\ safe p guard h' k') ->
    (forall t' h, t' <> t -> agrees L t' h -> agrees L' t' h) ->
    forall t' k0, nth_error (set_nth t k' T) t' = Some k0 ->
      exists h, agrees L' t' h /\ safe p guard h k0.
  Proof.
    intros L L' T t k' Hold Hlt Hnew Hoth t' k0 Hn.
    destruct (Nat.eq_dec t t') as [E|N].
    - subst t'. rewrite nth_error_set_nth_eq in Hn by exact Hlt. inversion Hn; subst. exact Hnew.
    - rewrite nth_error_set_nth_neq in Hn by exact N.
      destruct (Hold _ _ Hn) as [h [Ha Hs]]. exists h. split; [|exact Hs].
      apply Hoth; [congruence|exact Ha].
  Qed.

  (** Pending writers keep standing at their request when some thread makes
      a move that is not a write request/grant and the pending sets are unchanged. *)
  Lemma wq_step : forall L L' T t k l k',
    Inv {| lk := L; thr := T |} ->
    nth_error T t = Some k -> lstep p k l k' ->
    (forall c0, l <> LAcq c0 W) ->
    (forall c0, wq (L' c0) = wq (L c0)) ->
    forall c0 t0, In t0 (wq (L' c0)) ->
      exists k1, nth_error (set_nth t k' T) t0 = Some (KS (SAcq c0 W) :: k1).
  Proof.
    intros L L' T t k l k' HI Ht Hl Hlab Hwq c0 t0 Hin.
    rewrite Hwq in Hin. destruct (inv_wq _ HI _ _ Hin) as [k1 Hk1]. simpl in Hk1.
    destruct (Nat.eq_dec t t0) as [E|N].
    - subst t0. rewrite Ht in Hk1. inversion Hk1; subst.
      apply lstep_acq_head in Hl. destruct Hl as [El _]. exfalso. eapply Hlab; eauto.
    - exists k1. rewrite nth_error_set_nth_neq by exact N. exact Hk1.
  Qed.

  Lemma init_inv : forall es,
    check_program p guard = true -> entries_ok p es -> Inv (init es).
  Proof.
    intros es Hok Hes. constructor; simpl.
    - intros t k Hn. exists []. split.
      + intros c. unfold locks0, wcount. simpl. split; reflexivity.
      + rewrite nth_error_map in Hn. destruct (nth_error es t) as [f|] eqn:Ef; [|discriminate].
        simpl in Hn. inversion Hn; subst.
        apply roots_safe; [exact Hok|].
        unfold entries_ok in Hes. rewrite Forall_forall in Hes.
        rewrite (Hes f); [reflexivity|]. eapply nth_error_In; eauto.
    - intros c0 H. reflexivity.
    - intros c0 t H. destruct H.
    - intros c0 t [H|H]; [destruct H|discriminate].
  Qed.

  Lemma tstep_inv : forall t c c', tstep p t c c' -> Inv c -> Inv c'.
  Proof.
    intros t c c' Hst HI.
    inversion Hst as
      [L T t0 k k' Hn Hl | L T t0 k k' l w r Hn Hl | L T t0 k k' f Hn Hl
      | L T t0 k k' c0 Hn Hl Hen | L T t0 k k' c0 Hn Hl Hnin
      | L T t0 k k' c0 Hn Hl Hin Hen | L T t0 k k' c0 Hn Hl Hin
      | L T t0 k k' c0 Hn Hl Hw]; subst; clear Hst.
    - (* tau *)
      destruct (inv_thr _ HI _ _ Hn) as [h [Ha Hs]]. simpl in Ha.
      pose proof (nth_error_lt _ _ _ _ Hn) as Hlt.
      constructor; simpl.
      + eapply thr_step; [exact (inv_thr _ HI)|exact Hlt| |tauto].
        exists h. split; [exact Ha|]. exact (safe_step _ _ _ _ _ _ Hs Hl).
      + exact (inv_excl _ HI).
      + eapply wq_step; eauto; intros; discriminate.
      + intros c0 t' H. rewrite length_set_nth. exact (inv_dom _ HI c0 t' H).
    - (* acc *)
      destruct (inv_thr _ HI _ _ Hn) as [h [Ha Hs]]. simpl in Ha.
      pose proof (nth_error_lt _ _ _ _ Hn) as Hlt.
      constructor; simpl.
      + eapply thr_step; [exact (inv_thr _ HI)|exact Hlt| |tauto].
        exists h. split; [exact Ha|]. exact (safe_step _ _ _ _ _ _ Hs Hl).
      + exact (inv_excl _ HI).
      + eapply wq_step; eauto; intros; discriminate.
      + intros c0 t' H. rewrite length_set_nth. exact (inv_dom _ HI c0 t' H).
    - (* spawn *)
      destruct (inv_thr _ HI _ _ Hn) as [h [Ha Hs]]. simpl in Ha.
      pose proof (nth_error_lt _ _ _ _ Hn) as Hlt.
      constructor; simpl.
      + intros t' k0 Hn'.
        destruct (Nat.lt_ge_cases t' (List.length (set_nth t k' T))) as [Hlt'|Hge].
        * rewrite nth_error_app1 in Hn' by exact Hlt'.
          eapply thr_step; [exact (inv_thr _ HI)|exact Hlt| |tauto|exact Hn'].
          exists h. split; [exact Ha|]. exact (safe_step _ _ _ _ _ _ Hs Hl).
        * rewrite nth_error_app2 in Hn' by exact Hge.
          destruct (t' - List.length (set_nth t k' T)) as [|d] eqn:Ed; simpl in Hn'.
          -- inversion Hn'; subst. exists []. split.
             ++ intros c0. rewrite length_set_nth in Hge. split.
                ** simpl. symmetry. apply count_occ_not_In. intros Hin.
                   pose proof (inv_dom _ HI c0 t' (or_introl Hin)). simpl in *. lia.
                ** simpl. unfold wcount. destruct (writer (L c0)) as [tw|] eqn:Ew; [|reflexivity].
                   destruct (Nat.eq_dec tw t'); [|reflexivity]. subst tw.
                   pose proof (inv_dom _ HI c0 t' (or_intror Ew)). simpl in *. lia.
             ++ exact (safe_spawn _ _ _ _ _ _ Hs Hl).
          -- destruct d; discriminate.
      + exact (inv_excl _ HI).
      + intros c0 t' Hin.
        assert (Hw : exists k1, nth_error (set_nth t k' T) t' = Some (KS (SAcq c0 W) :: k1)).
        { eapply wq_step with (L' := L); eauto; intros; discriminate. }
        destruct Hw as [k1 Hk1]. exists k1. rewrite nth_error_app1; [exact Hk1|].
        eapply nth_error_lt; eauto.
      + intros c0 t' H. rewrite app_length, length_set_nth. simpl.
        pose proof (inv_dom _ HI c0 t' H). simpl in *. lia.
    - (* rlock *)
      destruct (inv_thr _ HI _ _ Hn) as [h [Ha Hs]]. simpl in Ha.
      pose proof (nth_error_lt _ _ _ _ Hn) as Hlt.
      destruct Hen as [Hw Hq].
      constructor; simpl.
      + eapply thr_step; [exact (inv_thr _ HI)|exact Hlt| |].
        * exists ((c0, R) :: h). split; [apply agrees_acq_R; exact Ha|].
          exact (safe_step _ _ _ _ _ _ Hs Hl).
        * intros t' h' Hne Ha'. apply agrees_acq_R_other; assumption.
      + intros c1. cases_upd c0 c1; simpl.
        * intros Hc. congruence.
        * exact (inv_excl _ HI c1).
      + eapply wq_step; eauto.
        * intros c1 E. inversion E.
        * intros c1. cases_upd c0 c1; reflexivity.
      + intros c1 t' H. rewrite length_set_nth. revert H. cases_upd c0 c1; simpl.
        * intros [[E|H]|H]; [subst; exact Hlt| |].
          -- exact (inv_dom _ HI c1 t' (or_introl H)).
          -- exact (inv_dom _ HI c1 t' (or_intror H)).
        * intros H. exact (inv_dom _ HI c1 t' H).
    - (* write request *)
      constructor; simpl.
      + intros t' k0 Hn'. destruct (inv_thr _ HI _ _ Hn') as [h [Ha Hs]]. simpl in Ha.
        exists h. split; [apply agrees_pending; exact Ha|exact Hs].
      + intros c1. cases_upd c0 c1; simpl; exact (inv_excl _ HI c1).
      + intros c1 t'. cases_upd c0 c1; simpl.
        * intros [E|Hin].
          -- subst t'. apply lstep_label_acq in Hl. subst k. eexists; exact Hn.
          -- exact (inv_wq _ HI c1 t' Hin).
        * intros Hin. exact (inv_wq _ HI c1 t' Hin).
      + intros c1 t'. cases_upd c0 c1; simpl; intros H; exact (inv_dom _ HI c1 t' H).
    - (* write grant *)
      destruct (inv_thr _ HI _ _ Hn) as [h [Ha Hs]]. simpl in Ha.
      pose proof (nth_error_lt _ _ _ _ Hn) as Hlt.
      destruct Hen as [Hr Hw].
      pose proof (lstep_label_acq _ _ _ _ _ Hl) as Ek.
      constructor; simpl.
      + eapply thr_step; [exact (inv_thr _ HI)|exact Hlt| |].
        * exists ((c0, W) :: h). split; [apply agrees_grant; assumption|].
          exact (safe_step _ _ _ _ _ _ Hs Hl).
        * intros t' h' Hne Ha'. apply agrees_grant_other; assumption.
      + intros c1. cases_upd c0 c1; simpl.
        * intros _. exact Hr.
        * exact (inv_excl _ HI c1).
      + intros c1 t'. cases_upd c0 c1; simpl.
        * intros Hin'. apply in_remove in Hin'. destruct Hin' as [Hin' Hne].
          destruct (inv_wq _ HI c1 t' Hin') as [k1 Hk1]. simpl in Hk1.
          exists k1. rewrite nth_error_set_nth_neq by congruence. exact Hk1.
        * intros Hin'. destruct (inv_wq _ HI c1 t' Hin') as [k1 Hk1]. simpl in Hk1.
          destruct (Nat.eq_dec t t') as [E|Nt].
          -- subst t'. rewrite Hn in Hk1. subst k. inversion Hk1; congruence.
          -- exists k1. rewrite nth_error_set_nth_neq by exact Nt. exact Hk1.
      + intros c1 t' H. rewrite length_set_nth. revert H. cases_upd c0 c1; simpl.
        * intros [H|H]; [exact (inv_dom _ HI c1 t' (or_introl H))|].
          inversion H; subst. exact Hlt.
        * intros H. exact (inv_dom _ HI c1 t' H).
    - (* read unlock *)
      destruct (inv_thr _ HI _ _ Hn) as [h [Ha Hs]]. simpl in Ha.
      pose proof (nth_error_lt _ _ _ _ Hn) as Hlt.
      constructor; simpl.
      + eapply thr_step; [exact (inv_thr _ HI)|exact Hlt| |].
        * exists (remove_one lm_eq_dec (c0, R) h). split; [apply agrees_rel_R; exact Ha|].
          exact (safe_step _ _ _ _ _ _ Hs Hl).
        * intros t' h' Hne Ha'. apply agrees_rel_R_other; assumption.
      + intros c1. cases_upd c0 c1; simpl.
        * intros Hc. pose proof (inv_excl _ HI _ Hc) as Hx. simpl in Hx.
          rewrite Hx in Hin. destruct Hin.
        * exact (inv_excl _ HI c1).
      + eapply wq_step; eauto.
        * intros c1 E. inversion E.
        * intros c1. cases_upd c0 c1; reflexivity.
      + intros c1 t' H. rewrite length_set_nth. revert H. cases_upd c0 c1; simpl.
        * intros [H|H].
          -- apply in_remove_one in H. exact (inv_dom _ HI c1 t' (or_introl H)).
          -- exact (inv_dom _ HI c1 t' (or_intror H)).
        * intros H. exact (inv_dom _ HI c1 t' H).
    - (* write unlock *)
      destruct (inv_thr _ HI _ _ Hn) as [h [Ha Hs]]. simpl in Ha.
      pose proof (nth_error_lt _ _ _ _ Hn) as Hlt.
      constructor; simpl.
      + eapply thr_step; [exact (inv_thr _ HI)|exact Hlt| |].
        * exists (remove_one lm_eq_dec (c0, W) h). split; [apply agrees_rel_W; assumption|].
          exact (safe_step _ _ _ _ _ _ Hs Hl).
        * intros t' h' Hne Ha'. apply agrees_rel_W_other with (t := t); assumption.
      + intros c1. cases_upd c0 c1; simpl.
        * intros Hc. congruence.
        * exact (inv_excl _ HI c1).
      + eapply wq_step; eauto.
        * intros c1 E. inversion E.
        * intros c1. cases_upd c0 c1; reflexivity.
      + intros c1 t' H. rewrite length_set_nth. revert H. cases_upd c0 c1; simpl.
        * intros [H|H]; [|discriminate]. exact (inv_dom _ HI c1 t' (or_introl H)).
        * intros H. exact (inv_dom _ HI c1 t' H).
  Qed.

  Lemma reachable_inv : forall es c,
    check_program p guard = true -> entries_ok p es -> reachable p es c -> Inv c.
  Proof.
    intros es c Hok Hes Hr. unfold reachable in Hr.
    assert (H : forall c1 c2, star p c1 c2 -> Inv c1 -> Inv c2).
    { intros c1 c2 Hs. induction Hs as [c0|c1 c2 c3 Hs IH [t Ht]]; intros HI.
      - exact HI.
      - eapply tstep_inv; [exact Ht|]. apply IH. exact HI. }
    eapply H; [exact Hr|]. apply init_inv; assumption.
  Qed.
End Invariant.

(* ------------------------------------------------------------------------- *)
(** * 3. C09: deadlock freedom                                                *)
(* ------------------------------------------------------------------------- *)

Section LocalProgress.
  Variable p : program.
  Variable guard : held -> sk -> bool.

  (** A thread that is unfinished and whose next statement is not a lock
      request can always move (its release is of a lock it holds, its call
      is defined, its exit has a block to leave). *)
  Lemma non_acq_progress : forall c t k,
    Inv p guard c -> nth_error (thr c) t = Some k -> k <> [] ->
    (forall c0 m k', k <> KS (SAcq c0 m) :: k') ->
    exists c', tstep p t c c'.
  Proof.
    intros [L T] t k HI Hn Hne Hna. simpl in Hn.
    destruct (inv_thr _ _ _ HI _ _ Hn) as [h [Ha Hs]]. simpl in Ha.
    pose proof (safe_good _ _ _ _ Hs) as Hg.
    destruct k as [|[s| |] k']; [congruence| | |].
    - destruct s as [c0 m|c0 m|f|f| | |l w r| |s1 s2|s1 s2|b|b|e]; simpl in Hg.
      + exfalso. eapply Hna. reflexivity.
      + destruct Hg as [_ Hin]. destruct m.
        * eexists. eapply st_runlock; [exact Hn|constructor|].
          apply (agrees_holds_R _ _ _ c0 Ha). exact Hin.
        * eexists. eapply st_wunlock; [exact Hn|constructor|].
          apply (agrees_holds_W _ _ _ c0 Ha). exact Hin.
      + destruct (body p f) as [b|] eqn:Eb; [|congruence].
        eexists. eapply st_tau; [exact Hn|]. eapply ls_call. exact Eb.
      + eexists. eapply st_spawn; [exact Hn|constructor].
      + eexists. eapply st_tau; [exact Hn|constructor].
      + eexists. eapply st_tau; [exact Hn|constructor].
      + eexists. eapply st_acc; [exact Hn|constructor].
      + eexists. eapply st_tau; [exact Hn|constructor].
      + eexists. eapply st_tau; [exact Hn|constructor].
      + eexists. eapply st_tau; [exact Hn|apply ls_altl].
      + eexists. eapply st_tau; [exact Hn|constructor].
      + eexists. eapply st_tau; [exact Hn|constructor].
      + destruct k' as [|[s'| |] k'']; simpl in Hg; try contradiction.
        * eexists. eapply st_tau; [exact Hn|constructor].
        * destruct e; eexists; (eapply st_tau; [exact Hn|constructor]).
    - eexists. eapply st_tau; [exact Hn|constructor].
    - eexists. eapply st_tau; [exact Hn|constructor].
  Qed.
End LocalProgress.

Section Progress.
  Variable p : program.

  Lemma rank_bound : forall c, rank c < max_rank.
  Proof. destruct c; unfold max_rank; simpl; lia. Qed.

  Lemma order_guard_acq : forall h c m x,
    order_guard h (SAcq c m) = true -> In x h -> rank (fst x) < rank c.
  Proof.
    intros h c m x Hg Hin. simpl in Hg. rewrite forallb_forall in Hg.
    apply Nat.ltb_lt. apply Hg. exact Hin.
  Qed.

  (** From a thread standing at a lock request, following waits-for leads to
      a thread that can move (induction on the distance of the requested
      class from the top of the lock order). *)
  Lemma acq_progress : forall c, Inv p order_guard c ->
    forall d t c0 m k,
      nth_error (thr c) t = Some (KS (SAcq c0 m) :: k) ->
      max_rank - rank c0 <= d ->
      exists t', clos_refl_trans tid (waits_for c) t t' /\ exists c', tstep p t' c c'.
  Proof.
    intros c HI. induction d as [|d IH]; intros t c0 m k Hn Hd.
    - pose proof (rank_bound c0). lia.
    - (* any holder of c0 leads to a thread that can move *)
      assert (Hholder : forall t' m',
                 (m' = R /\ In t' (readers (lk c c0))) \/ (m' = W /\ writer (lk c c0) = Some t') ->
                 exists t'', clos_refl_trans tid (waits_for c) t' t'' /\ exists c', tstep p t'' c c').
      { intros t' m' Hh.
        assert (Hlt : t' < List.length (thr c)).
        { apply (inv_dom _ _ _ HI c0). destruct Hh as [[_ H]|[_ H]]; [left|right]; exact H. }
        destruct (nth_error (thr c) t') as [k1|] eqn:Hn1;
          [|apply nth_error_None in Hn1; lia].
        destruct (inv_thr _ _ _ HI _ _ Hn1) as [h1 [Ha1 Hs1]].
        assert (Hin : In (c0, m') h1).
        { destruct Hh as [[-> H]|[-> H]].
          - apply (agrees_holds_R _ _ _ c0 Ha1). exact H.
          - apply (agrees_holds_W _ _ _ c0 Ha1). exact H. }
        pose proof (safe_good _ _ _ _ Hs1) as Hg.
        destruct k1 as [|i k1']; [simpl in Hg; subst h1; destruct Hin|].
        assert (Hcase : (exists c1 m1, i = KS (SAcq c1 m1)) \/
                        (forall c1 m1 k', i :: k1' <> KS (SAcq c1 m1) :: k')).
        { destruct i as [s| |]; [destruct s|..];
            try (right; intros ? ? ? E; discriminate E).
          left. do 2 eexists. reflexivity. }
        destruct Hcase as [[c1 [m1 ->]]|Hna].
        - simpl in Hg. pose proof (order_guard_acq h1 c1 m1 _ Hg Hin) as Hr. simpl in Hr.
          apply (IH t' c1 m1 k1' Hn1). lia.
        - exists t'. split; [apply rt_refl|].
          eapply non_acq_progress; [exact HI|exact Hn1|discriminate|exact Hna]. }
      assert (Hat : forall m0 k0, nth_error (thr c) t = Some (KS (SAcq c0 m0) :: k0) -> at_acq c t c0 m0).
      { intros m0 k0 H. exists k0. exact H. }
      assert (Hvia : forall t' m',
                 (m' = R /\ In t' (readers (lk c c0))) \/ (m' = W /\ writer (lk c c0) = Some t') ->
                 exists t'', clos_refl_trans tid (waits_for c) t t'' /\ exists c', tstep p t'' c c').
      { intros t' m' Hh. destruct (Hholder t' m' Hh) as [t'' [Hrt Hst]].
        exists t''. split; [|exact Hst].
        eapply rt_trans; [|exact Hrt]. apply rt_step.
        eapply wf_holder; [eapply Hat; exact Hn|].
        unfold holds_lock. destruct Hh as [[_ H]|[_ H]]; [left|right]; exact H. }
      destruct c as [L T]. simpl in *.
      destruct m.
      + (* read request *)
        destruct (writer (L c0)) as [tw|] eqn:Ew.
        * apply (Hvia tw W). right. split; reflexivity.
        * destruct (wq (L c0)) as [|t2 q] eqn:Eq.
          -- exists t. split; [apply rt_refl|]. eexists.
             eapply st_rlock; [exact Hn|constructor|]. split; assumption.
          -- destruct (readers (L c0)) as [|tr rs] eqn:Er.
             ++ (* the pending writer can be granted the lock *)
                assert (Hin2 : In t2 (wq (L c0))) by (rewrite Eq; left; reflexivity).
                destruct (inv_wq _ _ _ HI c0 t2 Hin2) as [k2 Hk2]. simpl in Hk2.
                exists t2. split.
                ** apply rt_step. eapply wf_pending; [exists k; exact Hn|exact Hin2].
                ** eexists. eapply st_wgrant; [exact Hk2|constructor|exact Hin2|].
                   split; assumption.
             ++ apply (Hvia tr R). left. split; [reflexivity|]. try rewrite Er. left. reflexivity.
      + (* write request *)
        destruct (in_dec Nat.eq_dec t (wq (L c0))) as [Hin|Hnin].
        * destruct (writer (L c0)) as [tw|] eqn:Ew.
          -- apply (Hvia tw W). right. split; reflexivity.
          -- destruct (readers (L c0)) as [|tr rs] eqn:Er.
             ++ exists t. split; [apply rt_refl|]. eexists.
                eapply st_wgrant; [exact Hn|constructor|exact Hin|]. split; assumption.
             ++ apply (Hvia tr R). left. split; [reflexivity|]. try rewrite Er. left. reflexivity.
        * exists t. split; [apply rt_refl|]. eexists.
          eapply st_wreq; [exact Hn|constructor|exact Hnin].
  Qed.

  Lemma thread_progress : forall c, Inv p order_guard c ->
    forall t k, nth_error (thr c) t = Some k -> k <> [] ->
    exists t', clos_refl_trans tid (waits_for c) t t' /\ exists c', tstep p t' c c'.
  Proof.
    intros c HI t k Hn Hne.
    assert (Hcase : (exists c1 m1 k1, k = KS (SAcq c1 m1) :: k1) \/
                    (forall c1 m1 k', k <> KS (SAcq c1 m1) :: k')).
    { destruct k as [|i k']; [congruence|].
      destruct i as [s| |]; [destruct s|..];
        try (right; intros ? ? ? E; discriminate E).
      left. do 3 eexists. reflexivity. }
    destruct Hcase as [[c1 [m1 [k1 ->]]]|Hna].
    - eapply acq_progress; [exact HI|exact Hn|apply le_n].
    - exists t. split; [apply rt_refl|]. eapply non_acq_progress; eauto.
  Qed.
End Progress.

(** ** Main theorems for C09 *)

(** No partial deadlock: in every reachable configuration of a program that
    passes [lock_order_ok], every unfinished thread either can move or waits,
    through a finite waits-for chain, for a thread that can move. *)
Theorem no_partial_deadlock : forall p,
  lock_order_ok p = true ->
  forall es, entries_ok p es ->
  forall c, reachable p es c ->
  forall t k, nth_error (thr c) t = Some k -> k <> [] ->
  exists t', clos_refl_trans tid (waits_for c) t t' /\ exists c', tstep p t' c c'.
Proof.
  intros p Hok es Hes c Hr t k Hn Hne.
  eapply thread_progress; [|exact Hn|exact Hne].
  eapply reachable_inv; eauto.
Qed.

(** Deadlock freedom: no reachable configuration is stuck. *)
Theorem deadlock_free : forall p,
  lock_order_ok p = true ->
  forall es, entries_ok p es ->
  forall c, reachable p es c -> ~ stuck p c.
Proof.
  intros p Hok es Hes c Hr [[t [k [Hn Hne]]] Hno].
  destruct (no_partial_deadlock p Hok es Hes c Hr t k Hn Hne) as [t' [_ [c' Hst]]].
  apply (Hno c'). exists t'. exact Hst.
Qed.

(* ------------------------------------------------------------------------- *)
(** * 4. C08 (static half): lockset data-race freedom                         *)
(* ------------------------------------------------------------------------- *)

Section Lockset.
  Lemma holds_b_R : forall L t h c,
    agrees L t h -> holds_b h (c, R) = true ->
    In t (readers (L c)) \/ writer (L c) = Some t.
  Proof.
    intros L t h c Ha Hh. unfold holds_b in Hh. simpl in Hh.
    apply orb_true_iff in Hh. destruct Hh as [Hh|Hh]; apply in_held_true in Hh.
    - left. apply (agrees_holds_R _ _ _ c Ha). exact Hh.
    - right. apply (agrees_holds_W _ _ _ c Ha). exact Hh.
  Qed.

  Lemma holds_b_W : forall L t h c,
    agrees L t h -> holds_b h (c, W) = true -> writer (L c) = Some t.
  Proof.
    intros L t h c Ha Hh. unfold holds_b in Hh. simpl in Hh.
    apply in_held_true in Hh. apply (agrees_holds_W _ _ _ c Ha). exact Hh.
  Qed.

  (** Two requirements that exclude each other cannot be satisfied by two
      distinct threads in the same lock state. *)
  Lemma excl_contra : forall L t1 t2 h1 h2 q1 q2,
    (forall c0, writer (L c0) <> None -> readers (L c0) = []) ->
    t1 <> t2 -> agrees L t1 h1 -> agrees L t2 h2 ->
    sat_req h1 q1 = true -> sat_req h2 q2 = true ->
    excl_req q1 q2 = true -> False.
  Proof.
    intros L t1 t2 h1 h2 q1 q2 Hex Hne Ha1 Ha2 Hs1 Hs2 He.
    unfold excl_req in He. apply existsb_exists in He. destruct He as [[c1 m1] [Hx He]].
    apply existsb_exists in He. destruct He as [[c2 m2] [Hy He]].
    apply andb_true_iff in He. destruct He as [Ec Hm]. simpl in Ec, Hm.
    destruct (lclass_eq_dec c1 c2) as [E|]; [subst c2|discriminate].
    unfold sat_req in Hs1, Hs2. rewrite forallb_forall in Hs1, Hs2.
    pose proof (Hs1 _ Hx) as H1. pose proof (Hs2 _ Hy) as H2.
    destruct m1; destruct m2; try discriminate.
    - (* R / W *)
      apply (holds_b_W _ _ _ _ Ha2) in H2.
      destruct (holds_b_R _ _ _ _ Ha1 H1) as [Hr|Hw].
      + rewrite (Hex c1) in Hr by congruence. destruct Hr.
      + congruence.
    - (* W / R *)
      apply (holds_b_W _ _ _ _ Ha1) in H1.
      destruct (holds_b_R _ _ _ _ Ha2 H2) as [Hr|Hw].
      + rewrite (Hex c1) in Hr by congruence. destruct Hr.
      + congruence.
    - (* W / W *)
      apply (holds_b_W _ _ _ _ Ha1) in H1. apply (holds_b_W _ _ _ _ Ha2) in H2. congruence.
  Qed.

  Lemma lookup_in : forall pol l r, lookup pol l = Some r -> In (l, r) pol.
  Proof.
    induction pol as [|[l' r'] pol IH]; intros l r H; simpl in H; [discriminate|].
    destruct (String.eqb l l') eqn:E.
    - apply String.eqb_eq in E. inversion H; subst. left. reflexivity.
    - right. apply IH. exact H.
  Qed.

  Lemma inv_no_race : forall p pol c,
    policy_wf pol = true -> Inv p (lockset_guard pol) c -> ~ race c.
  Proof.
    intros p pol c Hwf HI [t1 [t2 [l [w1 [w2 [k1 [k2 [Hne [Hn1 [Hn2 Hw]]]]]]]]]].
    destruct (inv_thr _ _ _ HI _ _ Hn1) as [h1 [Ha1 Hs1]].
    destruct (inv_thr _ _ _ HI _ _ Hn2) as [h2 [Ha2 Hs2]].
    pose proof (safe_good _ _ _ _ Hs1) as Hg1. pose proof (safe_good _ _ _ _ Hs2) as Hg2.
    simpl in Hg1, Hg2.
    destruct (lookup pol l) as [r|] eqn:El; [|discriminate].
    assert (Hr : rule_wf r = true).
    { unfold policy_wf in Hwf. rewrite forallb_forall in Hwf.
      apply (Hwf (l, r)). apply lookup_in. exact El. }
    unfold rule_wf in Hr. rewrite forallb_forall in Hr.
    unfold sat_dnf in Hg1, Hg2.
    apply existsb_exists in Hg1. destruct Hg1 as [q1 [Hq1 Hsat1]].
    apply existsb_exists in Hg2. destruct Hg2 as [q2 [Hq2 Hsat2]].
    destruct w1.
    - (* thread 1 writes: q1 is a write alternative *)
      pose proof (Hr q1 Hq1) as Hall. rewrite forallb_forall in Hall.
      assert (Hq2' : In q2 (rd r ++ wr r)).
      { apply in_or_app. destruct w2; [right|left]; exact Hq2. }
      eapply (excl_contra (lk c) t2 t1 h2 h1 q2 q1); eauto. exact (inv_excl _ _ _ HI).
    - destruct w2; [|discriminate].
      (* thread 2 writes, thread 1 reads *)
      pose proof (Hr q2 Hq2) as Hall. rewrite forallb_forall in Hall.
      assert (Hq1' : In q1 (rd r ++ wr r)) by (apply in_or_app; left; exact Hq1).
      eapply (excl_contra (lk c) t1 t2 h1 h2 q1 q2); eauto. exact (inv_excl _ _ _ HI).
  Qed.
End Lockset.

(** Lockset soundness: a program that passes [lockset_ok] for a (well-formed)
    policy has no reachable configuration in which two distinct threads are
    both about to access the same shared location class, one of them writing.
    The policy is fully general (DNF of lock requirements per access kind);
    its side condition [policy_wf] is part of [lockset_ok]. *)
Theorem lockset_drf : forall p pol,
  lockset_ok pol p = true ->
  forall es, entries_ok p es ->
  forall c, reachable p es c -> ~ race c.
Proof.
  intros p pol Hok es Hes c Hr. unfold lockset_ok in Hok.
  apply andb_true_iff in Hok. destruct Hok as [Hwf Hck].
  eapply inv_no_race; [exact Hwf|]. eapply reachable_inv; eauto.
Qed.

(* ------------------------------------------------------------------------- *)
(** * 5. The executable semantics is sound; corollaries for schedules         *)
(* ------------------------------------------------------------------------- *)

Lemma in_b_true : forall t l, in_b t l = true <-> In t l.
Proof.
  intros t l. unfold in_b. rewrite existsb_exists. split.
  - intros [x [Hx E]]. apply Nat.eqb_eq in E. subst. exact Hx.
  - intros H. exists t. split; [exact H|apply Nat.eqb_refl].
Qed.

Lemma exec_step_sound : forall p c a c',
  exec_step p c a = Some c' -> tstep p (fst a) c c'.
Proof.
  intros p [L T] [t rgt] c' H. unfold exec_step in H. simpl in H. simpl fst.
  destruct (nth_error T t) as [k|] eqn:Hn; [|discriminate].
  destruct k as [|[s| |] k']; [discriminate| | |].
  - destruct s as [c0 m|c0 m|f|f| | |l w r| |s1 s2|s1 s2|b|b|e].
    + destruct m.
      * destruct (is_none (writer (L c0)) && is_nil (wq (L c0))) eqn:E; [|discriminate].
        apply andb_true_iff in E. destruct E as [E1 E2]. inversion H; subst.
        eapply st_rlock; [exact Hn|constructor|]. split.
        -- destruct (writer (L c0)); [discriminate|reflexivity].
        -- destruct (wq (L c0)); [reflexivity|discriminate].
      * destruct (in_b t (wq (L c0))) eqn:Ein.
        -- destruct (is_nil (readers (L c0)) && is_none (writer (L c0))) eqn:E; [|discriminate].
           apply andb_true_iff in E. destruct E as [E1 E2]. inversion H; subst.
           eapply st_wgrant; [exact Hn|constructor|apply in_b_true; exact Ein|]. split.
           ++ destruct (readers (L c0)); [reflexivity|discriminate].
           ++ destruct (writer (L c0)); [discriminate|reflexivity].
        -- inversion H; subst. eapply st_wreq; [exact Hn|constructor|].
           intros Hin. apply in_b_true in Hin. congruence.
    + destruct m.
      * destruct (in_b t (readers (L c0))) eqn:Ein; [|discriminate]. inversion H; subst.
        eapply st_runlock; [exact Hn|constructor|apply in_b_true; exact Ein].
      * destruct (writer (L c0)) as [tw|] eqn:Ew; [|discriminate].
        destruct (Nat.eqb tw t) eqn:Et; [|discriminate]. apply Nat.eqb_eq in Et. subst tw.
        inversion H; subst. eapply st_wunlock; [exact Hn|constructor|exact Ew].
    + destruct (body p f) as [b|] eqn:Eb; [|discriminate]. inversion H; subst.
      eapply st_tau; [exact Hn|]. apply ls_call. exact Eb.
    + inversion H; subst. eapply st_spawn; [exact Hn|constructor].
    + inversion H; subst. eapply st_tau; [exact Hn|constructor].
    + inversion H; subst. eapply st_tau; [exact Hn|constructor].
    + inversion H; subst. eapply st_acc; [exact Hn|constructor].
    + inversion H; subst. eapply st_tau; [exact Hn|constructor].
    + inversion H; subst. eapply st_tau; [exact Hn|constructor].
    + inversion H; subst. eapply st_tau; [exact Hn|]. destruct rgt; constructor.
    + inversion H; subst. eapply st_tau; [exact Hn|constructor].
    + inversion H; subst. eapply st_tau; [exact Hn|constructor].
    + destruct k' as [|[s'| |] k'']; try discriminate.
      * inversion H; subst. eapply st_tau; [exact Hn|constructor].
      * destruct e; inversion H; subst; (eapply st_tau; [exact Hn|constructor]).
  - inversion H; subst. eapply st_tau; [exact Hn|constructor].
  - inversion H; subst. eapply st_tau; [exact Hn|constructor].
Qed.

Lemma exec_from_star : forall p sched c, star p c (exec_from p c sched).
Proof.
  intros p sched. induction sched as [|a sched IH]; intros c; simpl.
  - apply star_refl.
  - destruct (exec_step p c a) as [c'|] eqn:E; [|apply IH].
    assert (Htr : forall c1 c2 c3, star p c1 c2 -> star p c2 c3 -> star p c1 c3).
    { intros c1 c2 c3 H12 H23. induction H23 as [|x y z _ IH23 Hs]; [exact H12|].
      eapply star_step; [apply IH23; exact H12|exact Hs]. }
    eapply Htr; [|apply IH].
    eapply star_step; [apply star_refl|]. exists (fst a). apply exec_step_sound. exact E.
Qed.

Lemma exec_reachable : forall p es sched, reachable p es (exec p es sched).
Proof. intros. apply exec_from_star. Qed.

(** The statements in the form of DESIGN.md: for any number of threads, any
    entry points, any schedule. *)
Corollary deadlock_free_exec : forall p,
  lock_order_ok p = true ->
  forall es sched, entries_ok p es -> ~ stuck p (exec p es sched).
Proof. intros p H es sched Hes. eapply deadlock_free; eauto. apply exec_reachable. Qed.

Corollary lockset_drf_exec : forall p pol,
  lockset_ok pol p = true ->
  forall es sched, entries_ok p es -> ~ race (exec p es sched).
Proof. intros p pol H es sched Hes. eapply lockset_drf; eauto. apply exec_reachable. Qed.

(* ------------------------------------------------------------------------- *)
(** * 6. Examples: the hypotheses matter, and are satisfiable                 *)
(* ------------------------------------------------------------------------- *)

Open Scope string_scope.

(** ** 6.1 A re-entrant read path reaches a stuck state (the shape of D10)

    [All] takes the handle read lock and calls the public [Iterator], which
    takes it again; [InsertOrUpdate] takes the write lock. *)
Definition ex_Iterator : fundef :=
  {| fname := "Iterator"; fentry := true; fspawn := false;
     fbody := sseq [SAcq LHandle R; SAcc "objIndex.uuids" false RShared; SRel LHandle R] |}.
Definition ex_All : fundef :=
  {| fname := "All"; fentry := true; fspawn := false;
     fbody := sseq [SAcq LHandle R; SCall 0; SRel LHandle R] |}.
Definition ex_Insert : fundef :=
  {| fname := "InsertOrUpdate"; fentry := true; fspawn := false;
     fbody := sseq [SAcq LHandle W; SAcc "objIndex.uuids" true RShared; SRel LHandle W] |}.
Definition ex_reentrant : program := [ex_Iterator; ex_All; ex_Insert].

(** T0 runs [All], T1 runs [InsertOrUpdate].  Schedule: T0 enters [All] and
    gets the read lock; T1 requests the write lock (becomes pending); T0
    calls [Iterator] and requests the read lock again. *)
Definition ex_sched : list (tid * bool) :=
  [(0, false); (0, false); (0, false);
   (1, false); (1, false); (1, false);
   (0, false); (0, false); (0, false)].

Example ex_reentrant_rejected : lock_order_ok ex_reentrant = false.
Proof. vm_compute. reflexivity. Qed.

(** The generic shape: T0 holds R on the handle and requests R again, T1 is a
    pending writer. *)
Lemma reentrant_shape_stuck : forall p c k0 k1,
  thr c = [KS (SAcq LHandle R) :: k0; KS (SAcq LHandle W) :: k1] ->
  readers (lk c LHandle) = [0] -> writer (lk c LHandle) = None -> wq (lk c LHandle) = [1] ->
  stuck p c.
Proof.
  intros p [L T] k0 k1 HT Hr Hw Hq. simpl in *. subst T. split.
  - exists 0. eexists. split; [reflexivity|discriminate].
  - intros c' [t Hst].
    inversion Hst as
      [L0 T0 t0 k k' Hn Hl | L0 T0 t0 k k' l w r Hn Hl | L0 T0 t0 k k' f Hn Hl
      | L0 T0 t0 k k' c0 Hn Hl Hen | L0 T0 t0 k k' c0 Hn Hl Hnin
      | L0 T0 t0 k k' c0 Hn Hl Hin Hen | L0 T0 t0 k k' c0 Hn Hl Hin
      | L0 T0 t0 k k' c0 Hn Hl Hw0]; subst;
      (destruct t as [|[|t]]; simpl in Hn;
       [inversion Hn; subst; inversion Hl; subst
       |inversion Hn; subst; inversion Hl; subst
       |destruct t; discriminate Hn]).
    + destruct Hen as [_ Hq']. rewrite Hq in Hq'. discriminate.
    + apply Hnin. rewrite Hq. left. reflexivity.
    + destruct Hen as [Hr' _]. rewrite Hr in Hr'. discriminate.
Qed.

Theorem stuck_example :
  let c := exec ex_reentrant [1; 2] ex_sched in
  entries_ok ex_reentrant [1; 2] /\
  reachable ex_reentrant [1; 2] c /\
  lk c LHandle = {| readers := [0]; writer := None; wq := [1] |} /\
  (exists k0 k1, thr c = [KS (SAcq LHandle R) :: k0; KS (SAcq LHandle W) :: k1]) /\
  stuck ex_reentrant c.
Proof.
  intros c. split; [|split; [|split; [|split]]].
  - repeat constructor.
  - apply exec_reachable.
  - vm_compute. reflexivity.
  - vm_compute. do 2 eexists. reflexivity.
  - eapply reentrant_shape_stuck; vm_compute; reflexivity.
Qed.

(** ** 6.2 A write under the read lock reaches a race (the shape of D11) *)

Definition ex_policy : policy :=
  [("DB.schemas", {| rd := [[(LHandle, R)]]; wr := [[(LHandle, W)]] |});
   ("objIndex.uuids", {| rd := [[(LHandle, R)]]; wr := [[(LHandle, W)]] |});
   ("objectStore.m@cache", {| rd := [[(LStore ICache, R)]]; wr := [[(LStore ICache, W)]] |});
   ("objectMap.m@cache", {| rd := [[(LMap ICache, R)]]; wr := [[(LMap ICache, W)]] |});
   ("objectStore.m@asyncw",
      {| rd := [[(LStore IAsync, R)]; [(LHandle, W)]];
         wr := [[(LStore IAsync, W); (LHandle, W)]] |})].

Definition ex_Count : fundef :=
  {| fname := "Count"; fentry := true; fspawn := false;
     fbody := sseq [SAcq LHandle R; SAcc "DB.schemas" true RShared; SRel LHandle R] |}.
Definition ex_lazy : program := [ex_Count].

Example ex_lazy_rejected : lockset_ok ex_policy ex_lazy = false.
Proof. vm_compute. reflexivity. Qed.

Theorem race_example :
  let c := exec ex_lazy [0; 0] [(0, false); (0, false); (0, false); (0, false);
                                (1, false); (1, false); (1, false); (1, false)] in
  entries_ok ex_lazy [0; 0] /\ reachable ex_lazy [0; 0] c /\ race c.
Proof.
  intros c. split; [|split].
  - repeat constructor.
  - apply exec_reachable.
  - exists 0, 1, "DB.schemas", true, true. vm_compute. do 2 eexists.
    split; [discriminate|]. split; [reflexivity|]. split; reflexivity.
Qed.

(** ** 6.3 Non-vacuity: a program with all three lock levels, a loop, a
    goroutine, hooks and early exits that passes both checks *)

Definition ex_good : program := [
  (* 0 *) {| fname := "(*objectMap).get[C]"; fentry := false; fspawn := false;
     fbody := SBlock (sseq [SAcq (LMap ICache) R;
                            SBlock (sseq [SAcc "objectMap.m@cache" false RShared; SExit 0]);
                            SRel (LMap ICache) R]) |};
  (* 1 *) {| fname := "(*objectStore).get[C]"; fentry := false; fspawn := false;
     fbody := SBlock (sseq [SAcq (LStore ICache) R;
                            SBlock (sseq [SAcc "objectStore.m@cache" false RShared;
                                          salt [SCall 0; SSkip]; SExit 0]);
                            SRel (LStore ICache) R]) |};
  (* 2 *) {| fname := "(*DB).get"; fentry := false; fspawn := false;
     fbody := sseq [SAcc "DB.schemas" false RShared; SHook; SCall 1] |};
  (* 3 *) {| fname := "(*DB).iterator"; fentry := false; fspawn := false;
     fbody := sseq [SAcc "DB.schemas" false RShared; SAcc "objIndex.uuids" false RShared] |};
  (* 4 *) {| fname := "(*DB).Iterator"; fentry := true; fspawn := false;
     fbody := SBlock (sseq [SAcq LHandle R; SBlock (sseq [SCall 3; SExit 0]); SRel LHandle R]) |};
  (* 5 *) {| fname := "(*DB).All"; fentry := true; fspawn := false;
     fbody := SBlock (sseq [SAcq LHandle R;
                            SBlock (sseq [SCall 3;
                                          SBlock (SLoop (salt [SExit 0; SCall 2]));
                                          SExit 0]);
                            SRel LHandle R]) |};
  (* 6 *) {| fname := "flusher"; fentry := false; fspawn := true;
     fbody := SBlock (SLoop (sseq [
                salt [SExit 0; SSkip];
                SAcq LHandle R; SAcq (LStore IAsync) R;
                SAcc "objectStore.m@asyncw" false RShared;
                SRel (LStore IAsync) R; SRel LHandle R;
                salt [sseq [SAcq LHandle W; SAcc "objectStore.m@asyncw" false RShared;
                            SAcc "DB.schemas" false RShared; SRel LHandle W];
                      SSkip]])) |};
  (* 7 *) {| fname := "(*DB).InsertOrUpdate"; fentry := true; fspawn := false;
     fbody := SBlock (sseq [SAcq LHandle W;
                            SBlock (sseq [SAcc "DB.schemas" true RShared; SGo 6; SHook;
                                          salt [SExit 0; SSkip];
                                          SAcc "objIndex.uuids" true RShared;
                                          SAcq (LStore IAsync) W;
                                          SAcc "objectStore.m@asyncw" true RShared;
                                          SRel (LStore IAsync) W]);
                            SRel LHandle W]) |};
  (* 8 *) {| fname := "(*DB).InsertOrUpdateBulk"; fentry := true; fspawn := false;
     fbody := SBlock (SLoop (sseq [SWait; salt [SExit 0; SCall 7]])) |}
].

Example ex_good_order : lock_order_ok ex_good = true.
Proof. vm_compute. reflexivity. Qed.

Example ex_good_lockset : lockset_ok ex_policy ex_good = true.
Proof. vm_compute. reflexivity. Qed.

Corollary ex_good_deadlock_free : forall es sched,
  entries_ok ex_good es -> ~ stuck ex_good (exec ex_good es sched).
Proof. apply deadlock_free_exec. exact ex_good_order. Qed.

Corollary ex_good_race_free : forall es sched,
  entries_ok ex_good es -> ~ race (exec ex_good es sched).
Proof. apply (lockset_drf_exec ex_good ex_policy). exact ex_good_lockset. Qed.

(** The repaired shape of the first example ([All] calls an unlocked helper)
    is accepted. *)
Definition ex_repaired : program :=
  [ {| fname := "iterator"; fentry := false; fspawn := false;
       fbody := SAcc "objIndex.uuids" false RShared |};
    {| fname := "Iterator"; fentry := true; fspawn := false;
       fbody := sseq [SAcq LHandle R; SCall 0; SRel LHandle R] |};
    {| fname := "All"; fentry := true; fspawn := false;
       fbody := sseq [SAcq LHandle R; SCall 0; SRel LHandle R] |};
    ex_Insert ].

Example ex_repaired_order : lock_order_ok ex_repaired = true.
Proof. vm_compute. reflexivity. Qed.

(** ** 6.4 Negative tests of the decision procedures *)

Definition one (b : sk) : program :=
  [{| fname := "f"; fentry := true; fspawn := false; fbody := b |}].

(* inverted order: map lock, then handle *)
Example rej_inverted_order :
  lock_order_ok (one (sseq [SAcq (LMap ICache) R; SAcq LHandle R; SRel LHandle R; SRel (LMap ICache) R])) = false.
Proof. vm_compute. reflexivity. Qed.
(* two locks of the same rank nested *)
Example rej_same_rank :
  lock_order_ok (one (sseq [SAcq (LStore ICache) R; SAcq (LStore IAsync) R;
                            SRel (LStore IAsync) R; SRel (LStore ICache) R])) = false.
Proof. vm_compute. reflexivity. Qed.
(* read lock upgraded to write lock *)
Example rej_upgrade :
  lock_order_ok (one (sseq [SAcq LHandle R; SAcq LHandle W; SRel LHandle W; SRel LHandle R])) = false.
Proof. vm_compute. reflexivity. Qed.
(* unlock missing on one branch *)
Example rej_unbalanced_branch :
  lock_order_ok (one (sseq [SAcq LHandle W; salt [SRel LHandle W; SSkip]])) = false.
Proof. vm_compute. reflexivity. Qed.
(* early return that skips the unlock *)
Example rej_leak_on_return :
  lock_order_ok (one (SBlock (sseq [SAcq LHandle W; salt [SExit 0; SSkip]; SRel LHandle W]))) = false.
Proof. vm_compute. reflexivity. Qed.
(* ... accepted when the unlock is deferred *)
Example acc_deferred_unlock :
  lock_order_ok (one (SBlock (sseq [SAcq LHandle W; SBlock (salt [SExit 0; SSkip]); SRel LHandle W]))) = true.
Proof. vm_compute. reflexivity. Qed.
(* release of a lock that is not held; release in the wrong mode *)
Example rej_unheld_release : lock_order_ok (one (SRel LHandle R)) = false.
Proof. vm_compute. reflexivity. Qed.
Example rej_wrong_mode :
  lock_order_ok (one (sseq [SAcq LHandle R; SRel LHandle W])) = false.
Proof. vm_compute. reflexivity. Qed.
(* a loop that accumulates locks *)
Example rej_loop_accumulates :
  lock_order_ok (one (SBlock (SLoop (salt [SExit 0; SAcq LHandle R])))) = false.
Proof. vm_compute. reflexivity. Qed.
(* blocking wait (channel) under a lock *)
Example rej_wait_under_lock :
  lock_order_ok (one (sseq [SAcq LHandle R; SWait; SRel LHandle R])) = false.
Proof. vm_compute. reflexivity. Qed.
(* recursion / forward call: the call graph must be acyclic *)
Example rej_recursion : lock_order_ok (one (salt [SCall 0; SSkip])) = false.
Proof. vm_compute. reflexivity. Qed.
(* exit that would cross the function boundary *)
Example rej_escaping_exit : lock_order_ok (one (SExit 0)) = false.
Proof. vm_compute. reflexivity. Qed.
(* spawning a function that is not declared as a goroutine root *)
Example rej_undeclared_spawn : lock_order_ok (one (SGo 0)) = false.
Proof. vm_compute. reflexivity. Qed.
(* a goroutine that leaks a lock *)
Example rej_goroutine_leak :
  lock_order_ok [{| fname := "g"; fentry := false; fspawn := true; fbody := SAcq LHandle R |};
                 {| fname := "f"; fentry := true; fspawn := false; fbody := SGo 0 |}] = false.
Proof. vm_compute. reflexivity. Qed.
(* lockset: unlisted location, read with no lock, write of an immutable, local access *)
Example rej_unlisted_loc : lockset_ok ex_policy (one (SAcc "nowhere" false RShared)) = false.
Proof. vm_compute. reflexivity. Qed.
Example rej_unlocked_read : lockset_ok ex_policy (one (SAcc "DB.schemas" false RShared)) = false.
Proof. vm_compute. reflexivity. Qed.
Example acc_local_access : lockset_ok ex_policy (one (SAcc "DB.schemas" true RLocal)) = true.
Proof. vm_compute. reflexivity. Qed.
(* lockset: a policy whose alternatives do not exclude each other is refused *)
Example rej_bad_policy :
  lockset_ok [("x", {| rd := [[(LHandle, R)]]; wr := [[(LStore ICache, W)]] |})] (one SSkip) = false.
Proof. vm_compute. reflexivity. Qed.

Print Assumptions deadlock_free.
Print Assumptions no_partial_deadlock.
Print Assumptions lockset_drf.
Print Assumptions deadlock_free_exec.
Print Assumptions lockset_drf_exec.
Print Assumptions stuck_example.
Print Assumptions race_example.

(* ------------------------------------------------------------------------- *)
(** * 7. The computed counter-example is a reachable stuck configuration      *)
(* ------------------------------------------------------------------------- *)

Lemma star_trans : forall p c1 c2 c3, star p c1 c2 -> star p c2 c3 -> star p c1 c3.
Proof.
  intros p c1 c2 c3 H12 H23. induction H23 as [|x y z _ IH23 Hs]; [exact H12|].
  eapply star_step; [apply IH23; exact H12|exact Hs].
Qed.

Lemma exec_step_star : forall p c a c', exec_step p c a = Some c' -> star p c c'.
Proof.
  intros p c a c' H. eapply star_step; [apply star_refl|].
  exists (fst a). apply exec_step_sound. exact H.
Qed.

Lemma drive_star : forall p target fuel c t ch, star p c (fst (drive p target fuel c t ch)).
Proof.
  intros p target. induction fuel as [|fuel IH]; intros c t ch; [apply star_refl|].
  cbn [drive].
  assert (Hstep : forall a ch0,
             star p c (fst match exec_step p c a with
                           | Some c' => drive p target fuel c' t ch0
                           | None => (c, ch)
                           end)).
  { intros a ch0. destruct (exec_step p c a) as [c'|] eqn:E; [|apply star_refl].
    eapply star_trans; [eapply exec_step_star; exact E|apply IH]. }
  destruct (nth_error (thr c) t) as [k|]; [|apply star_refl].
  destruct k as [|[s| |] k']; try apply star_refl; try apply Hstep.
  destruct s; try apply star_refl; try apply Hstep.
  - destruct (lclass_eq_dec c0 target); [apply star_refl|apply Hstep].
  - destruct ch as [|b ch']; [apply star_refl|apply Hstep].
Qed.

Lemma witness_reachable : forall p target fuel r w c,
  witness p target fuel r w = Some c -> reachable p [r; w] c.
Proof.
  intros p target fuel r w c H. unfold witness in H.
  destruct (find_choices p target fuel r 1) as [chr|]; [|discriminate].
  destruct (find_choices p target fuel w 0) as [chw|]; [|discriminate].
  pose proof (drive_star p target fuel (init [r; w]) 0 chr) as S1.
  destruct (drive p target fuel (init [r; w]) 0 chr) as [c1 ch1]. simpl in S1.
  destruct (exec_step p c1 (0, false)) as [c2|] eqn:E2; [|discriminate].
  pose proof (drive_star p target fuel c2 0 ch1) as S3.
  destruct (drive p target fuel c2 0 ch1) as [c3 ch3]. simpl in S3.
  pose proof (drive_star p target fuel c3 1 chw) as S4.
  destruct (drive p target fuel c3 1 chw) as [c4 ch4]. simpl in S4.
  unfold reachable.
  eapply star_trans; [exact S1|]. eapply star_trans; [eapply exec_step_star; exact E2|].
  eapply star_trans; [exact S3|]. eapply star_trans; [exact S4|].
  eapply exec_step_star; exact H.
Qed.

Lemma reentrant_shape_b_stuck : forall p target c,
  reentrant_shape_b target c = true -> stuck p c.
Proof.
  intros p target [L T] H. unfold reentrant_shape_b in H. simpl in H.
  destruct T as [|k0 T]; [discriminate|].
  destruct k0 as [|[s0| |] k0]; try discriminate.
  destruct s0 as [c0 m0| | | | | | | | | | | |]; try discriminate.
  destruct m0; [|discriminate].
  destruct T as [|k1 T]; [discriminate|].
  destruct k1 as [|[s1| |] k1]; try discriminate.
  destruct s1 as [c1 m1| | | | | | | | | | | |]; try discriminate.
  destruct m1; [discriminate|].
  destruct T as [|k2 T]; [|discriminate].
  repeat (apply andb_true_iff in H; destruct H as [H ?]).
  destruct (lclass_eq_dec c0 target); [subst c0|discriminate].
  destruct (lclass_eq_dec c1 target); [subst c1|discriminate].
  destruct (readers (L target)) as [|tr [|? ?]] eqn:Er; try discriminate.
  destruct (writer (L target)) eqn:Ew; [discriminate|].
  destruct (wq (L target)) as [|tw [|? ?]] eqn:Eq; try discriminate.
  match goal with H : Nat.eqb tr 0 = true |- _ => apply Nat.eqb_eq in H; subst tr end.
  match goal with H : Nat.eqb tw 1 = true |- _ => apply Nat.eqb_eq in H; subst tw end.
  split.
  - exists 0. eexists. split; [reflexivity|discriminate].
  - intros c' [t Hst].
    inversion Hst as
      [L0 T0 t0 k k' Hn Hl | L0 T0 t0 k k' l w r Hn Hl | L0 T0 t0 k k' f Hn Hl
      | L0 T0 t0 k k' c2 Hn Hl Hen | L0 T0 t0 k k' c2 Hn Hl Hnin
      | L0 T0 t0 k k' c2 Hn Hl Hin Hen | L0 T0 t0 k k' c2 Hn Hl Hin
      | L0 T0 t0 k k' c2 Hn Hl Hw0]; subst;
      (destruct t as [|[|t]]; simpl in Hn;
       [inversion Hn; subst; inversion Hl; subst
       |inversion Hn; subst; inversion Hl; subst
       |destruct t; discriminate Hn]).
    + destruct Hen as [_ Hq']. rewrite Eq in Hq'. discriminate.
    + apply Hnin. rewrite Eq. left. reflexivity.
    + destruct Hen as [Hr' _]. rewrite Er in Hr'. discriminate.
Qed.

(** If the search succeeds and the result has the expected shape (both are
    computed), the program has a reachable stuck configuration from the two
    entry points [r] and [w]. *)
Theorem witness_stuck : forall p target fuel r w c,
  witness p target fuel r w = Some c ->
  reentrant_shape_b target c = true ->
  reachable p [r; w] c /\ stuck p c.
Proof.
  intros p target fuel r w c Hw Hs. split.
  - eapply witness_reachable; eauto.
  - eapply reentrant_shape_b_stuck; eauto.
Qed.

Example ex_reentrant_witness :
  exists c, witness ex_reentrant LHandle 50 1 2 = Some c /\ reentrant_shape_b LHandle c = true.
Proof. vm_compute. eexists. split; reflexivity. Qed.

Print Assumptions witness_stuck.
