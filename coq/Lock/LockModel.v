(* ========================================================================= *)
(*  Sod.Lock.LockModel : executable definitions for the lock-discipline       *)
(*  properties C09 (no API call can block forever) and C08 (static half:      *)
(*  lockset data-race freedom).                                               *)
(*                                                                            *)
(*  Contents (definitions only, no proofs; the proofs are in LockProofs.v):   *)
(*    1. lock classes, modes, the skeleton language [sk], programs            *)
(*    2. the writer-preference RWMutex machine                                *)
(*    3. the small-step interleaving semantics [step] (relation) and an       *)
(*       executable scheduler-driven version [exec]                           *)
(*    4. [stuck], [race]                                                      *)
(*    5. the static analysis [check_stmt] / [check_call] and the two          *)
(*       decision procedures [lock_order_ok] and [lockset_ok]                 *)
(*  Stdlib only.                                                              *)
(* ========================================================================= *)
From Coq Require Import List Arith Bool String PeanoNat.
Import ListNotations.

(* ------------------------------------------------------------------------- *)
(** * 1. Lock classes, skeleton language                                      *)
(* ------------------------------------------------------------------------- *)

(** Which of the two [objectStore]s of a handle ([DB.cache] / [DB.asyncw]). *)
Inductive inst := ICache | IAsync.

(** Lock classes of the package:
    - [LHandle]   : [DB.l]                                         (rank 0)
    - [LStore i]  : [objectStore.RWMutex] of store [i]             (rank 1)
    - [LMap i]    : [objectMap.RWMutex] of the per-type maps below
                    store [i]                                      (rank 2)
    - [LSchemas]  : [DB.sl], taken by DB.schema() around the lazy
                    loading of schemas, innermost                  (rank 3)
    All instances of one class are identified (one model lock per class). *)
Inductive lclass := LHandle | LStore (i : inst) | LMap (i : inst) | LSchemas.

Inductive mode := R | W.

Definition rank (c : lclass) : nat :=
  match c with LHandle => 0 | LStore _ => 1 | LMap _ => 2 | LSchemas => 3 end.

(** Strict upper bound of all ranks. *)
Definition max_rank : nat := 4.

Definition inst_eq_dec : forall a b : inst, {a = b} + {a <> b}.
Proof. decide equality. Defined.
Definition lclass_eq_dec : forall a b : lclass, {a = b} + {a <> b}.
Proof. decide equality; apply inst_eq_dec. Defined.
Definition mode_eq_dec : forall a b : mode, {a = b} + {a <> b}.
Proof. decide equality. Defined.
Definition lm_eq_dec : forall a b : lclass * mode, {a = b} + {a <> b}.
Proof. decide equality; [apply mode_eq_dec | apply lclass_eq_dec]. Defined.

(** Function identifiers are indexes into the program; location classes are
    named ("DB.schemas", "fieldIndex.Index", "objectStore.m@asyncw", ...). *)
Definition fid := nat.
Definition loc := string.

(** Ownership tag of an access, after the extractor has instantiated
    receiver/parameter-rooted accesses at their call sites:
    [RLocal] = the accessed object is still owned by the executing thread
    (fresh constructor result, by-value copy, unmarshal target before
    publication); [RShared] = anything else. *)
Inductive root := RShared | RLocal.

(** The skeleton language.  Control flow is Cminor-style: [SLoop] loops
    forever, [SBlock]/[SExit n] leave the (n+1)-th enclosing block.  Go's
    [return] (with deferred calls), [break], [continue] and forward [goto]
    are compiled to blocks/exits by the extractor: a function
    [A; defer d; B] becomes [SBlock (A; SBlock B; d)] with each [return] of
    [B] an [SExit] to the inner block, so that [d] runs at function exit. *)
Inductive sk :=
| SAcq (c : lclass) (m : mode)     (* x.RLock() / x.Lock()                    *)
| SRel (c : lclass) (m : mode)     (* x.RUnlock() / x.Unlock()                *)
| SCall (f : fid)                  (* statically resolved package call        *)
| SGo (f : fid)                    (* go f(...) : new thread running [f]      *)
| SHook                            (* call through the Object interface       *)
| SWait                            (* blocking wait that is not a lock (chan) *)
| SAcc (l : loc) (w : bool) (r : root)   (* memory access to a location class *)
| SSkip
| SSeq (s1 s2 : sk)
| SAlt (s1 s2 : sk)                (* if / switch / select: either branch     *)
| SLoop (b : sk)                   (* loop forever; left through [SExit]      *)
| SBlock (b : sk)
| SExit (n : nat).

(** n-ary helpers used by the generated file. *)
Definition sseq (l : list sk) : sk := fold_right SSeq SSkip l.
Fixpoint salt (l : list sk) : sk :=
  match l with
  | [] => SSkip
  | [s] => s
  | s :: l' => SAlt s (salt l')
  end.

Record fundef := {
  fname  : string;   (* Go name, for humans only *)
  fentry : bool;     (* exported entry point: may be the root of a thread *)
  fspawn : bool;     (* target of some [go] statement *)
  fbody  : sk
}.

Definition program := list fundef.

Definition body (p : program) (f : fid) : option sk :=
  match nth_error p f with Some d => Some (fbody d) | None => None end.
Definition is_entry (p : program) (f : fid) : bool :=
  match nth_error p f with Some d => fentry d | None => false end.
Definition is_spawn (p : program) (f : fid) : bool :=
  match nth_error p f with Some d => fspawn d | None => false end.

(* ------------------------------------------------------------------------- *)
(** * 2. The RWMutex machine (writer preference)                              *)
(* ------------------------------------------------------------------------- *)

Definition tid := nat.

(** State of one lock class: the multiset of readers (a thread occurs once
    per read acquisition), the writer, the set of pending writers (threads
    that have called [Lock] and have not been granted it yet). *)
Record lstate := { readers : list tid; writer : option tid; wq : list tid }.
Definition lstate0 : lstate := {| readers := []; writer := None; wq := [] |}.

Definition locks := lclass -> lstate.
Definition locks0 : locks := fun _ => lstate0.
Definition upd (L : locks) (c : lclass) (s : lstate) : locks :=
  fun c' => if lclass_eq_dec c c' then s else L c'.

Fixpoint remove_one {A} (eqd : forall x y : A, {x = y} + {x <> y}) (x : A) (l : list A) : list A :=
  match l with
  | [] => []
  | y :: l' => if eqd x y then l' else y :: remove_one eqd x l'
  end.

(** [RLock] is granted iff there is no writer AND no pending writer. *)
Definition rlock_enabled (s : lstate) : Prop := writer s = None /\ wq s = [].
(** [Lock] is granted (to a pending writer) iff nobody holds the lock. *)
Definition wgrant_enabled (s : lstate) : Prop := readers s = [] /\ writer s = None.

Definition add_reader (t : tid) (s : lstate) : lstate :=
  {| readers := t :: readers s; writer := writer s; wq := wq s |}.
Definition del_reader (t : tid) (s : lstate) : lstate :=
  {| readers := remove_one Nat.eq_dec t (readers s); writer := writer s; wq := wq s |}.
Definition add_pending (t : tid) (s : lstate) : lstate :=
  {| readers := readers s; writer := writer s; wq := t :: wq s |}.
Definition grant_writer (t : tid) (s : lstate) : lstate :=
  {| readers := readers s; writer := Some t; wq := remove Nat.eq_dec t (wq s) |}.
Definition del_writer (s : lstate) : lstate :=
  {| readers := readers s; writer := None; wq := wq s |}.

(* ------------------------------------------------------------------------- *)
(** * 3. Small-step interleaving semantics                                    *)
(* ------------------------------------------------------------------------- *)

(** A thread is a continuation stack. [KBlockEnd] closes an [SBlock],
    [KRet] marks a call boundary (an [SExit] never crosses it). *)
Inductive kitem := KS (s : sk) | KBlockEnd | KRet.
Definition cont := list kitem.

Inductive label :=
| LTau
| LAcq (c : lclass) (m : mode)
| LRel (c : lclass) (m : mode)
| LSpawn (f : fid)
| LAcc (l : loc) (w : bool) (r : root).

(** Thread-local steps (what the thread's code does next). *)
Inductive lstep (p : program) : cont -> label -> cont -> Prop :=
| ls_acq  : forall c m k, lstep p (KS (SAcq c m) :: k) (LAcq c m) k
| ls_rel  : forall c m k, lstep p (KS (SRel c m) :: k) (LRel c m) k
| ls_call : forall f b k, body p f = Some b ->
                          lstep p (KS (SCall f) :: k) LTau (KS b :: KRet :: k)
| ls_ret  : forall k, lstep p (KRet :: k) LTau k
| ls_go   : forall f k, lstep p (KS (SGo f) :: k) (LSpawn f) k
| ls_hook : forall k, lstep p (KS SHook :: k) LTau k      (* hooks return *)
| ls_wait : forall k, lstep p (KS SWait :: k) LTau k      (* the awaited event arrives *)
| ls_acc  : forall l w r k, lstep p (KS (SAcc l w r) :: k) (LAcc l w r) k
| ls_skip : forall k, lstep p (KS SSkip :: k) LTau k
| ls_seq  : forall s1 s2 k, lstep p (KS (SSeq s1 s2) :: k) LTau (KS s1 :: KS s2 :: k)
| ls_altl : forall s1 s2 k, lstep p (KS (SAlt s1 s2) :: k) LTau (KS s1 :: k)
| ls_altr : forall s1 s2 k, lstep p (KS (SAlt s1 s2) :: k) LTau (KS s2 :: k)
| ls_loop : forall b k, lstep p (KS (SLoop b) :: k) LTau (KS b :: KS (SLoop b) :: k)
| ls_block : forall b k, lstep p (KS (SBlock b) :: k) LTau (KS b :: KBlockEnd :: k)
| ls_blockend : forall k, lstep p (KBlockEnd :: k) LTau k
| ls_exit_skip : forall n s k, lstep p (KS (SExit n) :: KS s :: k) LTau (KS (SExit n) :: k)
| ls_exit_0 : forall k, lstep p (KS (SExit 0) :: KBlockEnd :: k) LTau k
| ls_exit_S : forall n k, lstep p (KS (SExit (S n)) :: KBlockEnd :: k) LTau (KS (SExit n) :: k).

Record config := { lk : locks; thr : list cont }.

Fixpoint set_nth {A} (n : nat) (x : A) (l : list A) : list A :=
  match l, n with
  | [], _ => []
  | _ :: l', 0 => x :: l'
  | y :: l', S n' => y :: set_nth n' x l'
  end.

(** Global steps.  [Lock] takes two steps: the request (the thread joins the
    pending writers, and from then on new readers are refused) and the grant.
    A release is possible only for a lock the thread holds (releasing a lock
    that is not held is a fatal error in Go; here the thread cannot move). *)
Inductive tstep (p : program) : tid -> config -> config -> Prop :=
| st_tau : forall L T t k k',
    nth_error T t = Some k -> lstep p k LTau k' ->
    tstep p t {| lk := L; thr := T |} {| lk := L; thr := set_nth t k' T |}
| st_acc : forall L T t k k' l w r,
    nth_error T t = Some k -> lstep p k (LAcc l w r) k' ->
    tstep p t {| lk := L; thr := T |} {| lk := L; thr := set_nth t k' T |}
| st_spawn : forall L T t k k' f,
    nth_error T t = Some k -> lstep p k (LSpawn f) k' ->
    tstep p t {| lk := L; thr := T |}
           {| lk := L; thr := set_nth t k' T ++ [[KS (SCall f)]] |}
| st_rlock : forall L T t k k' c,
    nth_error T t = Some k -> lstep p k (LAcq c R) k' ->
    rlock_enabled (L c) ->
    tstep p t {| lk := L; thr := T |}
           {| lk := upd L c (add_reader t (L c)); thr := set_nth t k' T |}
| st_wreq : forall L T t k k' c,
    nth_error T t = Some k -> lstep p k (LAcq c W) k' ->
    ~ In t (wq (L c)) ->
    tstep p t {| lk := L; thr := T |}
           {| lk := upd L c (add_pending t (L c)); thr := T |}
| st_wgrant : forall L T t k k' c,
    nth_error T t = Some k -> lstep p k (LAcq c W) k' ->
    In t (wq (L c)) -> wgrant_enabled (L c) ->
    tstep p t {| lk := L; thr := T |}
           {| lk := upd L c (grant_writer t (L c)); thr := set_nth t k' T |}
| st_runlock : forall L T t k k' c,
    nth_error T t = Some k -> lstep p k (LRel c R) k' ->
    In t (readers (L c)) ->
    tstep p t {| lk := L; thr := T |}
           {| lk := upd L c (del_reader t (L c)); thr := set_nth t k' T |}
| st_wunlock : forall L T t k k' c,
    nth_error T t = Some k -> lstep p k (LRel c W) k' ->
    writer (L c) = Some t ->
    tstep p t {| lk := L; thr := T |}
           {| lk := upd L c (del_writer (L c)); thr := set_nth t k' T |}.

(** A step of the system is a step of some thread. *)
Definition step (p : program) (c c' : config) : Prop := exists t, tstep p t c c'.

Inductive star (p : program) : config -> config -> Prop :=
| star_refl : forall c, star p c c
| star_step : forall c1 c2 c3, star p c1 c2 -> step p c2 c3 -> star p c1 c3.

(** Initial configurations: any number of threads, each about to call any
    entry point, on one handle (all locks free). *)
Definition init (es : list fid) : config :=
  {| lk := locks0; thr := map (fun f => [KS (SCall f)]) es |}.

Definition entries_ok (p : program) (es : list fid) : Prop :=
  Forall (fun f => is_entry p f = true) es.

Definition reachable (p : program) (es : list fid) (c : config) : Prop :=
  star p (init es) c.

(* ------------------------------------------------------------------------- *)
(** * 4. Bad states                                                           *)
(* ------------------------------------------------------------------------- *)

(** Some thread is unfinished and no thread can take a step. *)
Definition stuck (p : program) (c : config) : Prop :=
  (exists t k, nth_error (thr c) t = Some k /\ k <> []) /\
  (forall c', ~ step p c c').

(** Waits-for: a thread standing at a lock request waits for the holders of
    that lock and, for a read request, for the pending writers (which are
    served first: writer preference).  Used to state that there is no
    PARTIAL deadlock either ([no_partial_deadlock] in LockProofs.v). *)
Definition holds_lock (c : config) (t : tid) (c0 : lclass) : Prop :=
  In t (readers (lk c c0)) \/ writer (lk c c0) = Some t.
Definition at_acq (c : config) (t : tid) (c0 : lclass) (m : mode) : Prop :=
  exists k, nth_error (thr c) t = Some (KS (SAcq c0 m) :: k).
Inductive waits_for (c : config) : tid -> tid -> Prop :=
| wf_holder : forall t t' c0 m,
    at_acq c t c0 m -> holds_lock c t' c0 -> waits_for c t t'
| wf_pending : forall t t' c0,
    at_acq c t c0 R -> In t' (wq (lk c c0)) -> waits_for c t t'.

(** Two distinct threads are both about to perform a shared access to the
    same location class, at least one of them a write. *)
Definition race (c : config) : Prop :=
  exists t1 t2 l w1 w2 k1 k2,
    t1 <> t2 /\
    nth_error (thr c) t1 = Some (KS (SAcc l w1 RShared) :: k1) /\
    nth_error (thr c) t2 = Some (KS (SAcc l w2 RShared) :: k2) /\
    (w1 || w2 = true).

(* ------------------------------------------------------------------------- *)
(** * 3'. Executable scheduler-driven semantics                               *)
(* ------------------------------------------------------------------------- *)

Definition in_b (t : tid) (l : list tid) : bool := existsb (Nat.eqb t) l.
Definition is_nil {A} (l : list A) : bool := match l with [] => true | _ => false end.
Definition is_none {A} (o : option A) : bool := match o with None => true | _ => false end.

(** One scheduler action [(t, rgt)]: thread [t] moves; [rgt] picks the
    branch of an [SAlt].  [None] = not possible in this configuration. *)
Definition exec_step (p : program) (c : config) (a : tid * bool) : option config :=
  let '(t, rgt) := a in
  let L := lk c in let T := thr c in
  match nth_error T t with
  | None => None
  | Some k =>
    let tau k' := Some {| lk := L; thr := set_nth t k' T |} in
    match k with
    | [] => None
    | KBlockEnd :: k' => tau k'
    | KRet :: k' => tau k'
    | KS s :: k' =>
      match s with
      | SAcq c0 R =>
          if is_none (writer (L c0)) && is_nil (wq (L c0))
          then Some {| lk := upd L c0 (add_reader t (L c0)); thr := set_nth t k' T |}
          else None
      | SAcq c0 W =>
          if in_b t (wq (L c0))
          then if is_nil (readers (L c0)) && is_none (writer (L c0))
               then Some {| lk := upd L c0 (grant_writer t (L c0)); thr := set_nth t k' T |}
               else None
          else Some {| lk := upd L c0 (add_pending t (L c0)); thr := T |}
      | SRel c0 R =>
          if in_b t (readers (L c0))
          then Some {| lk := upd L c0 (del_reader t (L c0)); thr := set_nth t k' T |}
          else None
      | SRel c0 W =>
          match writer (L c0) with
          | Some t' => if Nat.eqb t' t
                       then Some {| lk := upd L c0 (del_writer (L c0)); thr := set_nth t k' T |}
                       else None
          | None => None
          end
      | SCall f => match body p f with
                   | Some b => tau (KS b :: KRet :: k')
                   | None => None
                   end
      | SGo f => Some {| lk := L; thr := set_nth t k' T ++ [[KS (SCall f)]] |}
      | SHook | SWait | SSkip | SAcc _ _ _ => tau k'
      | SSeq s1 s2 => tau (KS s1 :: KS s2 :: k')
      | SAlt s1 s2 => tau (KS (if rgt then s2 else s1) :: k')
      | SLoop b => tau (KS b :: KS (SLoop b) :: k')
      | SBlock b => tau (KS b :: KBlockEnd :: k')
      | SExit n =>
          match k' with
          | KS _ :: k'' => tau (KS (SExit n) :: k'')
          | KBlockEnd :: k'' => match n with 0 => tau k'' | S n' => tau (KS (SExit n') :: k'') end
          | _ => None
          end
      end
    end
  end.

(** Run a schedule; impossible actions are skipped. *)
Fixpoint exec_from (p : program) (c : config) (sched : list (tid * bool)) : config :=
  match sched with
  | [] => c
  | a :: sched' =>
      match exec_step p c a with
      | Some c' => exec_from p c' sched'
      | None => exec_from p c sched'
      end
  end.

Definition exec (p : program) (es : list fid) (sched : list (tid * bool)) : config :=
  exec_from p (init es) sched.

(* ------------------------------------------------------------------------- *)
(** * 5. Static analysis                                                      *)
(* ------------------------------------------------------------------------- *)

(** The analysis tracks, along every path, the multiset of locks held by the
    executing thread (most recent first). *)
Definition held := list (lclass * mode).

Definition held_eq_dec : forall a b : held, {a = b} + {a <> b} :=
  list_eq_dec lm_eq_dec.

Definition in_held (x : lclass * mode) (h : held) : bool :=
  existsb (fun y => if lm_eq_dec x y then true else false) h.

(** Result of analysing a statement from a given held set: the held set on
    normal completion ([None]: never completes normally), and the held set
    at each escaping [SExit n]. *)
Record res := { rnorm : option held; rexits : list (nat * held) }.

(** Joining two paths: both must hold the same locks. *)
Definition merge_norm (a b : option held) : option (option held) :=
  match a, b with
  | None, x => Some x
  | x, None => Some x
  | Some x, Some y => if held_eq_dec x y then Some (Some x) else None
  end.

(** At the end of a block: exits of level 0 join normal completion, the
    others lose one level. *)
Fixpoint block_exits (es : list (nat * held)) (norm : option held)
  : option (option held * list (nat * held)) :=
  match es with
  | [] => Some (norm, [])
  | (0, h) :: es' =>
      match merge_norm norm (Some h) with
      | Some n' => block_exits es' n'
      | None => None
      end
  | (S m, h) :: es' =>
      match block_exits es' norm with
      | Some (n', out) => Some (n', (m, h) :: out)
      | None => None
      end
  end.

Definition exit_eqb (a b : nat * held) : bool :=
  Nat.eqb (fst a) (fst b) && (if held_eq_dec (snd a) (snd b) then true else false).

(** Append without repeating entries already present (keeps lists small). *)
Fixpoint add_exits (a b : list (nat * held)) : list (nat * held) :=
  match a with
  | [] => b
  | x :: a' => if existsb (exit_eqb x) b then add_exits a' b else x :: add_exits a' b
  end.

Section Check.
  Variable p : program.
  (** [guard h s]: extra requirement on the atomic statement [s] when the
      thread holds [h] (lock order for C09, lockset policy for C08). *)
  Variable guard : held -> sk -> bool.

  Section Stmt.
    (** How to analyse a call (supplied by [check_call], with less fuel). *)
    Variable call : fid -> held -> option (option held).

    Fixpoint check_stmt (h : held) (s : sk) : option res :=
      match s with
      | SAcq c m =>
          if guard h s then Some {| rnorm := Some ((c, m) :: h); rexits := [] |} else None
      | SRel c m =>
          if guard h s && in_held (c, m) h
          then Some {| rnorm := Some (remove_one lm_eq_dec (c, m) h); rexits := [] |}
          else None
      | SCall f =>
          match call f h with
          | Some n => Some {| rnorm := n; rexits := [] |}
          | None => None
          end
      | SGo f =>
          (* the spawned function is analysed as a thread root of its own *)
          if guard h s && is_spawn p f
          then Some {| rnorm := Some h; rexits := [] |} else None
      | SSkip => Some {| rnorm := Some h; rexits := [] |}
      | SHook | SWait | SAcc _ _ _ =>
          if guard h s then Some {| rnorm := Some h; rexits := [] |} else None
      | SSeq s1 s2 =>
          match check_stmt h s1 with
          | None => None
          | Some r1 =>
              match rnorm r1 with
              | None => Some r1                       (* s2 is unreachable *)
              | Some h1 =>
                  match check_stmt h1 s2 with
                  | None => None
                  | Some r2 => Some {| rnorm := rnorm r2;
                                       rexits := add_exits (rexits r1) (rexits r2) |}
                  end
              end
          end
      | SAlt s1 s2 =>
          match check_stmt h s1, check_stmt h s2 with
          | Some r1, Some r2 =>
              match merge_norm (rnorm r1) (rnorm r2) with
              | Some n => Some {| rnorm := n; rexits := add_exits (rexits r1) (rexits r2) |}
              | None => None
              end
          | _, _ => None
          end
      | SLoop b =>
          match check_stmt h b with
          | None => None
          | Some r =>
              (* the held set is a loop invariant *)
              match rnorm r with
              | None => Some {| rnorm := None; rexits := rexits r |}
              | Some h' =>
                  if held_eq_dec h' h
                  then Some {| rnorm := None; rexits := rexits r |} else None
              end
          end
      | SBlock b =>
          match check_stmt h b with
          | None => None
          | Some r =>
              match block_exits (rexits r) (rnorm r) with
              | Some (n, out) => Some {| rnorm := n; rexits := out |}
              | None => None
              end
          end
      | SExit n => Some {| rnorm := None; rexits := [(n, h)] |}
      end.
  End Stmt.

  (** Calls are analysed by inlining.  A callee must have a smaller index
      than its caller: this decides that the call graph is acyclic (the
      extractor numbers functions callees-first) and bounds the depth by the
      size of the program, which is the fuel given by [check_root]. *)
  Fixpoint check_call (fuel : nat) (f : fid) (h : held) : option (option held) :=
    match fuel with
    | 0 => None
    | S fuel' =>
        match body p f with
        | None => None
        | Some b =>
            match check_stmt (fun f' h' => if f' <? f then check_call fuel' f' h' else None) h b with
            | Some r => if is_nil (rexits r) then Some (rnorm r) else None
            | None => None
            end
        end
    end.

  (** A thread root (entry point or goroutine) starts and ends with nothing held. *)
  Definition check_root (f : fid) : bool :=
    match check_call (S (List.length p)) f [] with
    | Some None => true
    | Some (Some h) => is_nil h
    | None => false
    end.

  Definition check_program : bool :=
    forallb (fun f => if is_entry p f || is_spawn p f then check_root f else true)
            (seq 0 (List.length p)).
End Check.

(** ** C09: lock order *)

(** A lock may be requested only if every held lock has a strictly smaller
    rank (hence never a class already held, in any mode); a blocking wait
    that is not a lock request may occur only with nothing held. *)
Definition order_guard (h : held) (s : sk) : bool :=
  match s with
  | SAcq c _ => forallb (fun x => rank (fst x) <? rank c) h
  | SWait => is_nil h
  | _ => true
  end.

Definition lock_order_ok (p : program) : bool := check_program p order_guard.

(** ** C08: lockset *)

(** A requirement: a conjunction of locks to hold ([(c,R)] is satisfied by
    holding [c] in either mode). A rule: one DNF for reads, one for writes. *)
Definition req := list (lclass * mode).
Record rule := { rd : list req; wr : list req }.
(** A policy is a finite table; unlisted location classes allow no shared access. *)
Definition policy := list (loc * rule).

Definition holds_b (h : held) (x : lclass * mode) : bool :=
  match snd x with
  | W => in_held (fst x, W) h
  | R => in_held (fst x, R) h || in_held (fst x, W) h
  end.
Definition sat_req (h : held) (q : req) : bool := forallb (holds_b h) q.
Definition sat_dnf (h : held) (d : list req) : bool := existsb (sat_req h) d.

Fixpoint lookup (pol : policy) (l : loc) : option rule :=
  match pol with
  | [] => None
  | (l', r) :: pol' => if String.eqb l l' then Some r else lookup pol' l
  end.

Definition lockset_guard (pol : policy) (h : held) (s : sk) : bool :=
  match s with
  | SAcc l w RShared =>
      match lookup pol l with
      | Some r => sat_dnf h (if w then wr r else rd r)
      | None => false
      end
  | _ => true
  end.

(** Side condition on a policy (B.4): any write alternative and any (read or
    write) alternative share a lock class that one of them requires in write
    mode, so they cannot be satisfied by two threads at once. *)
Definition excl_req (a b : req) : bool :=
  existsb (fun x => existsb (fun y =>
     (if lclass_eq_dec (fst x) (fst y) then true else false) &&
     (match snd x, snd y with R, R => false | _, _ => true end)) b) a.
Definition rule_wf (r : rule) : bool :=
  forallb (fun b => forallb (fun a => excl_req a b) (rd r ++ wr r)) (wr r).
Definition policy_wf (pol : policy) : bool := forallb (fun x => rule_wf (snd x)) pol.

Definition lockset_ok (pol : policy) (p : program) : bool :=
  policy_wf pol && check_program p (lockset_guard pol).

(* ------------------------------------------------------------------------- *)
(** * 6. Checks modulo known findings (gating only, NO soundness claim)       *)
(* ------------------------------------------------------------------------- *)

(** When [lock_order_ok] / [lockset_ok] is [false] on the current tree, the
    verdict protocol needs to know whether every violation is a KNOWN one.
    The following variants skip the thread roots named in [skip] and excuse
    the access sites listed in [sites] (location class, write?, exact held
    list).  They are decision procedures for "nothing else is wrong"; the
    theorems of LockProofs.v do not apply to them. *)
Definition root_named (p : program) (names : list string) (f : fid) : bool :=
  match nth_error p f with
  | Some d => existsb (String.eqb (fname d)) names
  | None => false
  end.

Definition check_program_skip (p : program) (guard : held -> sk -> bool)
           (skip : list string) : bool :=
  forallb (fun f => if (is_entry p f || is_spawn p f) && negb (root_named p skip f)
                    then check_root p guard f else true)
          (seq 0 (List.length p)).

Definition site := (loc * bool * held)%type.

Definition site_eqb (l : loc) (w : bool) (h : held) (x : site) : bool :=
  String.eqb l (fst (fst x)) && Bool.eqb w (snd (fst x)) &&
  (if held_eq_dec h (snd x) then true else false).

Definition masked_guard (pol : policy) (sites : list site) (h : held) (s : sk) : bool :=
  lockset_guard pol h s ||
  match s with
  | SAcc l w RShared => existsb (site_eqb l w h) sites
  | _ => false
  end.

Definition lock_order_ok_modulo (skip : list string) (p : program) : bool :=
  check_program_skip p order_guard skip.

Definition lockset_ok_modulo (pol : policy) (skip : list string) (sites : list site)
           (p : program) : bool :=
  policy_wf pol && check_program_skip p (masked_guard pol sites) skip.

(** Per-root verdicts, for reports. *)
Definition root_verdicts (p : program) (guard : held -> sk -> bool) : list (string * bool) :=
  flat_map (fun f => match nth_error p f with
                     | Some d => if fentry d || fspawn d
                                 then [(fname d, check_root p guard f)] else []
                     | None => []
                     end) (seq 0 (List.length p)).

(* ------------------------------------------------------------------------- *)
(** * 7. Counter-example search: a deadlocking schedule computed in the model *)
(* ------------------------------------------------------------------------- *)

(** When [lock_order_ok] fails because of a re-entrant read acquisition of
    [target] (the handle lock), [witness] computes a reachable configuration
    of the shape "T0 holds R and requests R again, T1 is a pending writer".
    [outs] searches, by structural recursion with inlined calls, the branch
    choices (one [bool] per [SAlt] met) that lead a thread to its (k+1)-th
    request of [target]; [drive] replays choices with [exec_step]. *)
Inductive outcome := ONorm (k : nat) | OExit (n k : nat) | OFound.

Definition outcome_eqb (a b : outcome) : bool :=
  match a, b with
  | ONorm k, ONorm k' => Nat.eqb k k'
  | OExit n k, OExit n' k' => Nat.eqb n n' && Nat.eqb k k'
  | OFound, OFound => true
  | _, _ => false
  end.

Definition opath := (outcome * list bool)%type.

Fixpoint add_outs (a b : list opath) : list opath :=
  match a with
  | [] => b
  | x :: a' =>
      let b' := add_outs a' b in
      if existsb (fun y => outcome_eqb (fst x) (fst y)) b' then b' else x :: b'
  end.

Section Witness.
  Variable p : program.
  Variable target : lclass.

  Fixpoint outs (fuel : nat) (s : sk) (k : nat) : list opath :=
    match fuel with
    | 0 => []
    | S fuel' =>
      match s with
      | SAcq c _ =>
          if lclass_eq_dec c target
          then match k with 0 => [(OFound, [])] | S k' => [(ONorm k', [])] end
          else [(ONorm k, [])]
      | SCall f =>
          match body p f with
          | Some b => filter (fun x => match fst x with OExit _ _ => false | _ => true end)
                             (outs fuel' b k)
          | None => []
          end
      | SSeq s1 s2 =>
          fold_right (fun x acc =>
             match fst x with
             | ONorm k1 => add_outs (map (fun y => (fst y, snd x ++ snd y)) (outs fuel' s2 k1)) acc
             | _ => add_outs [x] acc
             end) [] (outs fuel' s1 k)
      | SAlt s1 s2 =>
          add_outs (map (fun x => (fst x, false :: snd x)) (outs fuel' s1 k))
                   (map (fun x => (fst x, true :: snd x)) (outs fuel' s2 k))
      | SLoop b =>
          fold_right (fun x acc =>
             match fst x with
             | ONorm k1 =>
                 if k1 <? k
                 then add_outs (map (fun y => (fst y, snd x ++ snd y)) (outs fuel' (SLoop b) k1)) acc
                 else acc
             | _ => add_outs [x] acc
             end) [] (outs fuel' b k)
      | SBlock b =>
          fold_right (fun x acc =>
             match fst x with
             | OExit 0 k1 => add_outs [(ONorm k1, snd x)] acc
             | OExit (S n) k1 => add_outs [(OExit n k1, snd x)] acc
             | _ => add_outs [x] acc
             end) [] (outs fuel' b k)
      | SExit n => [(OExit n k, [])]
      | SGo _ => []          (* paths that spawn a third thread are not used *)
      | _ => [(ONorm k, [])]
      end
    end.

  Definition find_choices (fuel : nat) (f : fid) (k : nat) : option (list bool) :=
    match find (fun x => outcome_eqb (fst x) OFound) (outs fuel (SCall f) k) with
    | Some x => Some (snd x)
    | None => None
    end.

  (** Move thread [t] until it stands at a request of [target] (or cannot
      move), taking the next choice at every [SAlt]. *)
  Fixpoint drive (fuel : nat) (c : config) (t : tid) (ch : list bool) : config * list bool :=
    match fuel with
    | 0 => (c, ch)
    | S fuel' =>
      match nth_error (thr c) t with
      | Some (KS (SAcq c0 _) :: _) =>
          if lclass_eq_dec c0 target then (c, ch)
          else match exec_step p c (t, false) with
               | Some c' => drive fuel' c' t ch
               | None => (c, ch)
               end
      | Some (KS (SAlt _ _) :: _) =>
          match ch with
          | b :: ch' => match exec_step p c (t, b) with
                        | Some c' => drive fuel' c' t ch'
                        | None => (c, ch)
                        end
          | [] => (c, ch)
          end
      | Some _ =>
          match exec_step p c (t, false) with
          | Some c' => drive fuel' c' t ch
          | None => (c, ch)
          end
      | None => (c, ch)
      end
    end.

  (** T0 runs [r] up to its second request of [target] (taking the first),
      T1 runs [w] up to its first request and makes it. *)
  Definition witness (fuel : nat) (r w : fid) : option config :=
    match find_choices fuel r 1, find_choices fuel w 0 with
    | Some chr, Some chw =>
        let c0 := init [r; w] in
        let '(c1, ch1) := drive fuel c0 0 chr in
        match exec_step p c1 (0, false) with
        | Some c2 =>
            let '(c3, _) := drive fuel c2 0 ch1 in
            let '(c4, _) := drive fuel c3 1 chw in
            exec_step p c4 (1, false)
        | None => None
        end
    | _, _ => None
    end.

  (** The shape of the stuck state of [stuck_example]. *)
  Definition reentrant_shape_b (c : config) : bool :=
    match thr c with
    | [KS (SAcq c0 R) :: _; KS (SAcq c1 W) :: _] =>
        (if lclass_eq_dec c0 target then true else false) &&
        (if lclass_eq_dec c1 target then true else false) &&
        (match readers (lk c target) with [t] => Nat.eqb t 0 | _ => false end) &&
        is_none (writer (lk c target)) &&
        (match wq (lk c target) with [t] => Nat.eqb t 1 | _ => false end)
    | _ => false
    end.
End Witness.
