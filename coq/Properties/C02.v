(* C02 — Search returns exactly the matching objects, for every operator and field.
   Property theorems only; each is closed by [exact] of a lemma proved in Proofs/. *)
From Coq Require Import List ZArith NArith Bool.
Import ListNotations.
From Sod.Model Require Import Base FieldIndex ObjIndex.
From Sod.Proofs Require Import FIProofs1 SearchSpec.

(* Every range operator of the hand-written bisection, on every descending-sorted index of every
   length, for every probe (absent values, boundaries, duplicates, extremes of the type): the
   result is the sub-LIST of the index whose keys satisfy the comparison — all of them, only
   them, each once, in index order. *)
Theorem C02_index_search_exact :
  forall (l : findex) (o : sop) (probe : key) (rxc : option (key -> bool)) (m : key -> bool),
    sorted l -> o <> OpBad ->
    (o = OpRx -> rxc = Some m /\ exists s, probe = KStr s) ->
    fi_search l o probe rxc = Ok (filter (fun e => eval_op o m (fst e) probe) l).
Proof. exact fi_search_spec. Qed.
Print Assumptions C02_index_search_exact.

Theorem C02_index_search_no_panic :
  forall (l : findex) (o : sop) (probe : key) (rxc : option (key -> bool)),
    sorted l -> fi_search l o probe rxc <> Panic.
Proof. exact fi_search_no_panic. Qed.
Print Assumptions C02_index_search_no_panic.
