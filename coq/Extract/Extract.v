(* Extraction of the executable model to OCaml for the correspondence driver.
   ExtrOcamlBasic only: bool, option, unit, list, prod, sumbool, sumor map to OCaml's;
   nat, positive, N, Z stay Coq datatypes. *)
From Coq Require Import ExtrOcamlBasic.
From Coq Require Import List ZArith NArith.
From Sod.Model Require Import Base FieldIndex ObjIndex DB Instance Layout Clone Descr Norm Path.
Extraction Language OCaml.
Extraction "model.ml" clone_value erase sharing fresh_distinct max_loc camel_to_snake dir_name object_file_name step step_fg init_state run mk_hooks new_handle empty_disk disk_uuids
  uuid_ext uuid_shaped listed_uuid
  time_key key_time in_unixnano_range normalise
  vfbn field_by_name ptname pleaf_id
  rec_fds field_descriptors compatible_with fields_compatible_with reach split_on dot
  key_ltb key_eqb oi_control control_mem file_of suffix_of indexed_uuids
  Z.add Z.mul Z.opp Z.of_nat Z.of_N N.of_nat N.to_nat Z.to_nat Nat.add.
