"""Per-property configuration of ./check: generator profile, sizes, attribution of divergences
(projected observables), non-triviality rules, extra engines."""
import os, re, json, subprocess, sys

TRUSTED = [
    'Coq 8.16.1 kernel (coqc full .vo build; vm_compute used for examples/witnesses; no native_compute)',
    'no axioms: every property theorem prints "Closed under the global context"',
    'extraction: ExtrOcamlBasic only (bool, option, unit, list, prod, sumbool, sumor -> OCaml); nat/positive/N/Z stay Coq datatypes; OCaml 4.13.1 + zarith (driver I/O only)',
    'correspondence check: go/harness (generators, executor, projections), go/rewrite + go/vshim (AST rewrite of the scratch copy), ocaml/driver.ml, lib/compare.py',
    'modelled, not verified: encoding/json, gzip, regexp, Unicode case tables (oracle tables in the trace), uuid generation (fresh-uuid oracle), Go map iteration order, reflect-based field access, OS file system (completed calls persist in order), sync.RWMutex, Go scheduler',
]

SWEEP = {'count', 'all', 'dump', 'fs'}

# op kind -> properties that own a divergence first seen at that op
OWN = {
    'create': {'C17', 'C18'},
    'ins': {'C03', 'C15', 'C16', 'C06', 'C01'},
    'many': {'C07', 'C03', 'C15', 'C06'},
    'bulk': {'C07', 'C03', 'C15', 'C06'},
    'del': {'C01'}, 'delall': {'C01'},
    'get': {'C01', 'C10', 'C14'}, 'getu': {'C01', 'C10'}, 'exist': {'C01', 'C10', 'C12'}, 'count': {'C01'}, 'all': {'C01'},
    'search': {'C02', 'C16', 'C19'}, 'and': {'C02', 'C16', 'C19'}, 'or': {'C02', 'C16', 'C19'}, 'len': {'C02'},
    'collect': {'C02', 'C13', 'C20'}, 'one': {'C02', 'C13', 'C20'},
    'sdel': {'C02', 'C01'}, 'aidx': {'C13'},
    'commit': {'C10', 'C04'}, 'flushall': {'C10'}, 'flushallc': {'C10', 'C04'}, 'close': {'C10', 'C04'},
    'reopen': {'C04'}, 'control': {'C11', 'C05'}, 'repair': {'C11', 'C05'}, 'schema': {'C11', 'C19', 'C17'},
    'tick': {'C10'}, 'drop': {'C01'}, 'failat': {'C06'},
    'rmfile': {'C11'}, 'addfile': {'C11'}, 'rmentry': {'C11'}, 'rmschema': {'C11'}, 'corrupt': {'C11', 'C19'},
    'truncfile': {'C11', 'C19'}, 'stray': {'C11', 'C19'},
    'dump': set(), 'fs': {'C18'},
}

WRITES = {'ins', 'many', 'bulk', 'del', 'delall', 'sdel'}


def owners(mm):
    """Properties owning a divergence: by the op where it shows, for sweeps by the op that
    triggered the sweep, plus scenario rules (after reopen -> C04, after a failed write -> C06, ...)."""
    ops = [l for l in mm.get('replay', []) if not l.startswith(('cfg', 'fields'))]
    if not ops:
        return set(OWN.keys())
    kind = ops[-1].split(' ', 1)[0]
    own = set(OWN.get(kind, set()))
    prev = [o.split(' ', 1)[0] for o in ops[:-1]]
    nonsweep = [k for k in prev if k not in SWEEP]
    if kind in SWEEP and nonsweep:
        own |= OWN.get(nonsweep[-1], set())
    if 'reopen' in prev:
        own.add('C04')
        own.add('C18')
    if any(k in ('rmfile', 'addfile', 'rmentry', 'rmschema', 'corrupt', 'truncfile', 'stray') for k in prev):
        own.add('C11')
    if 'failat' in prev:
        own.add('C06')
    if 'tick' in prev or any(l.startswith('cfg') and 'async=1' in l for l in mm.get('replay', [])):
        own.add('C10')
    if kind in ('collect', 'one') and any(k in WRITES for k in prev):
        own.add('C20')
    if kind in SWEEP or kind in ('get', 'getu', 'exist', 'search', 'collect'):
        own.add('C12')  # any read differing from the configuration-free model
    return own


def P(profile, nq, nt, rule, **kw):
    d = dict(profile=profile, n_quick=nq, n_thorough=nt, rule=rule)
    d.update(kw)
    return d


RULE = ('histories generated from VERIF_SEED by go/harness (profile %s): create + ~30 ops drawn from the '
        'profile mix over small dense key domains plus type extremes, random configuration and index/unique subset; '
        'a history is non-trivial when %s; distinct = distinct (configuration, op-kind sequence) pairs')

PROPS = {
    'C01': P('C01', 320, 6400, RULE % ('C01', 'it has >= 1 accepted write, >= 1 delete and >= 1 read')),
    'C02': P('C02', 320, 6400, RULE % ('C02', 'it evaluates >= 1 search with a non-empty result on a collection of >= 2 objects')),
    'C03': P('C03', 320, 6400, RULE % ('C03', 'it has >= 1 write rejected for uniqueness and >= 1 accepted write after it')),
    'C07': P('C07', 320, 6400, RULE % ('C07', 'it has >= 1 rejected batch and >= 1 accepted batch of >= 2 objects')),
    'C13': P('C13', 320, 6400, RULE % ('C13', 'it collects >= 1 ordered result of >= 2 objects')),
    'C15': P('C15', 320, 6400, RULE % ('C15', 'it has >= 1 write rejected as invalid and >= 1 transformed accepted write')),
    'C16': P('C16', 320, 6400, RULE % ('C16', 'it stores >= 1 string under an upper/lower constraint and searches that field')),
    'C20': P('C20', 320, 6400, RULE % ('C20', 'it collects >= 1 search evaluated before an intervening write')),
}


def merge(pid, corr, r, samples):
    if 'error' in r:
        corr['errors'].append(r['error'])
        return
    corr['histories'] += r.get('histories', 0)
    corr['ops'] += r.get('ops', 0)
    for k, v in r.get('op_counts', {}).items():
        corr['op_counts'][k] = corr['op_counts'].get(k, 0) + v
    for k, v in r.get('err_classes', {}).items():
        corr['err_classes'][k] = corr['err_classes'].get(k, 0) + v
    for mm in r.get('mismatches', []):
        (corr['mismatches'] if pid in owners(mm) else corr['other_mismatches']).append(mm)
    for of in r.get('oracle_failures', []):
        t = of.get('line', '').split()
        if len(t) > 1 and t[1] == pid:
            corr['oracle_failures'].append(of)
    corr.setdefault('nontrivial', 0)
    corr['nontrivial'] += r.get('nontrivial', {}).get(pid, 0)
    if r.get('sample') and len(samples) < 3:
        samples.append(r['sample'])


def signature(pid, of):
    return of.get('line', '') + ' || ' + ' ; '.join(of.get('replay', [])[-3:])


def nontrivial(pid, corr, extra):
    return corr.get('nontrivial', 0) + extra.get('nontrivial', 0)


def run_extra(pid, tier, seed, exe, workdir, V):
    mod = EXTRA.get(pid)
    if mod is None:
        return {}
    return mod(pid, tier, seed, exe, workdir, V)


EXTRA = {}
