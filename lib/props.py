"""Per-property configuration of ./check: generator profile, sizes, attribution of divergences
(projected observables), non-triviality rules, extra engines."""
import os, re, json, subprocess, sys

TRUSTED = [
    'Coq 8.16.1 kernel (coqc full .vo build; vm_compute used for examples/witnesses; no native_compute)',
    'no axioms: every property theorem prints "Closed under the global context"',
    'extraction: ExtrOcamlBasic only (bool, option, unit, list, prod, sumbool, sumor -> OCaml); nat/positive/N/Z stay Coq datatypes; OCaml 4.13.1 + zarith (driver I/O only)',
    'correspondence check: go/harness (generators, executor, projections), go/rewrite + go/vshim (AST rewrite of the scratch copy), ocaml/driver.ml, lib/compare.py',
    'modelled, not verified: encoding/json, gzip, regexp, Unicode case tables (oracle tables in the trace), uuid generation (fresh-uuid oracle), Go map iteration order, reflect-based field access, OS file system (completed calls persist in order), sync.RWMutex, Go scheduler',
]

SWEEP = {'count', 'all', 'dump', 'fs'}

# op kind -> properties that own a divergence first seen at that op
OWN = {
    'create': {'C17', 'C18'},
    'ins': {'C03', 'C15', 'C16', 'C06', 'C01'},
    'many': {'C07', 'C03', 'C15', 'C06'},
    'bulk': {'C07', 'C03', 'C15', 'C06'},
    'del': {'C01'}, 'delall': {'C01'},
    'get': {'C01', 'C10', 'C14'}, 'getu': {'C01', 'C10'}, 'exist': {'C01', 'C10', 'C12'}, 'count': {'C01'}, 'all': {'C01'},
    'search': {'C02', 'C16', 'C19'}, 'and': {'C02', 'C16', 'C19'}, 'or': {'C02', 'C16', 'C19'}, 'len': {'C02'},
    'collect': {'C02', 'C13', 'C20'}, 'one': {'C02', 'C13', 'C20'},
    'sdel': {'C02', 'C01'}, 'aidx': {'C13'},
    'snapcheck': {'C05'}, 'flush1': {'C10', 'C01'}, 'flush1c': {'C10', 'C04', 'C01'}, 'expects': {'C02', 'C19'},
    'commit': {'C10', 'C04'}, 'flushall': {'C10'}, 'flushallc': {'C10', 'C04'}, 'close': {'C10', 'C04'},
    'reopen': {'C04'}, 'control': {'C11', 'C05'}, 'repair': {'C11', 'C05'}, 'schema': {'C11', 'C19', 'C17'},
    'tick': {'C10'}, 'drop': {'C01'}, 'failat': {'C06'},
    'rmfile': {'C11'}, 'addfile': {'C11'}, 'rmentry': {'C11'}, 'rmfentry': {'C11'}, 'rmschema': {'C11'}, 'corrupt': {'C11', 'C19'},
    'truncfile': {'C11', 'C19'}, 'stray': {'C11', 'C19'},
    'dump': set(), 'fs': {'C18'},
}

WRITES = {'ins', 'many', 'bulk', 'del', 'delall', 'sdel'}


def owners(mm):
    """Properties owning a divergence: by the op where it shows, for sweeps by the op that
    triggered the sweep, plus scenario rules (after reopen -> C04, after a failed write -> C06, ...)."""
    ops = [l for l in mm.get('replay', []) if not l.startswith(('cfg', 'fields'))]
    if not ops:
        return set(OWN.keys())
    kind = ops[-1].split(' ', 1)[0]
    own = set(OWN.get(kind, set()))
    prev = [o.split(' ', 1)[0] for o in ops[:-1]]
    nonsweep = [k for k in prev if k not in SWEEP]
    if kind in SWEEP and nonsweep:
        own |= OWN.get(nonsweep[-1], set())
    if 'reopen' in prev:
        own.add('C04')
        own.add('C18')
    if any(k in ('rmfile', 'addfile', 'rmentry', 'rmfentry', 'rmschema', 'corrupt', 'truncfile', 'stray') for k in prev):
        own.add('C11')
    if 'failat' in prev:
        own.add('C06')
    if 'tick' in prev or any(l.startswith('cfg') and 'async=1' in l for l in mm.get('replay', [])):
        own.add('C10')
    if kind in ('collect', 'one') and any(k in WRITES for k in prev):
        own.add('C20')
    if kind in SWEEP or kind in ('get', 'getu', 'exist', 'search', 'collect'):
        own.add('C12')  # any read differing from the configuration-free model
    return own


def P(profile, nq, nt, rule, **kw):
    d = dict(profile=profile, n_quick=nq, n_thorough=nt, rule=rule)
    d.update(kw)
    return d


RULE = ('histories generated from VERIF_SEED by go/harness (profile %s): create + ~30 ops drawn from the '
        'profile mix over small dense key domains plus type extremes, random configuration and index/unique subset; '
        'a history is non-trivial when %s; distinct = distinct (configuration, op-kind sequence) pairs')

PROPS = {
    'C01': P('C01', 1600, 16000, RULE % ('C01', 'it has >= 1 accepted write, >= 1 delete and >= 1 read')),
    'C02': P('C02', 1600, 16000, RULE % ('C02', 'it evaluates >= 1 search with a non-empty result on a collection of >= 2 objects')),
    'C03': P('C03', 1600, 16000, RULE % ('C03', 'it has >= 1 write rejected for uniqueness and >= 1 accepted write after it')),
    'C04': P('C04', 1600, 16000, RULE % ('C04', 'it reopens the directory after >= 1 accepted write and observes it again')),
    'C05': P('C05', 1600, 16000, RULE % ('C05', 'it crashes one mutating call at one of its file-system mutations, reopens, controls, repairs and sweeps (every history has exactly one crash)')),
    'C06': P('C06', 1600, 16000, RULE % ('C06', 'it has >= 1 write call returning an error (logical rejection or injected storage fault) observed by a sweep before and after')),
    'C07': P('C07', 1600, 16000, RULE % ('C07', 'it has >= 1 rejected batch and >= 1 accepted batch of >= 2 objects')),
    'C10': P('C10', 1600, 16000, RULE % ('C10', 'it runs in async mode under the virtual clock with >= 1 accepted write')),
    'C11': P('C11', 1600, 16000, RULE % ('C11', 'it applies >= 1 Control or Repair after file / index faults')),
    'C14': P('C01', 320, 3200, RULE % ('C01', 'sequential histories only validate the model of cached / pending reads; the C14 engine proper is the alias correspondence of CloneObject on generated value graphs plus mutate-after-store / mutate-after-read probes through the database under the four cache x async configurations')),
    'C19': P('C19', 1600, 16000, RULE % ('C19', 'it damages >= 1 file or directory entry or passes >= 1 ill-formed search argument and keeps calling the API afterwards')),
    'C12': P('C12', 400, 4000, RULE % ('C12', 'it has >= 1 accepted write and >= 1 read'), extra=[]),
    'C13': P('C13', 1600, 16000, RULE % ('C13', 'it collects >= 1 ordered result of >= 2 objects or an AssignIndex of >= 2 values')),
    'C15': P('C15', 1600, 16000, RULE % ('C15', 'it has >= 1 write rejected as invalid and >= 1 transformed accepted write')),
    'C16': P('C16', 1600, 16000, RULE % ('C16', 'it stores >= 1 string under an upper/lower constraint and searches that field')),
    'C17': P('C17', 800, 8000, RULE % ('C17', 'it calls Create >= 2 times (settings switch, refused re-creation) or opens the directory through a changed struct')),
    'C18': P('C18', 1600, 16000, RULE % ('C18', 'it lists and decodes the directory after >= 1 accepted write')),
    'C20': P('C20', 1600, 16000, RULE % ('C20', 'it collects >= 1 search evaluated before an intervening write')),
    'C08': P('C02', 160, 1600, RULE % ('C02', 'static obligation + race runs; sequential histories only validate the model'), static_only=True, race=True),
    'C09': P('C02', 160, 1600, RULE % ('C02', 'static obligation; sequential histories only validate the model'), static_only=True),
}


def merge(pid, corr, r, samples):
    if 'died' in r:
        d = dict(r['died'])
        d['line'] = d['line'].replace('! %s ' % d['line'].split()[1], '! %s ' % pid, 1)
        corr['oracle_failures'].append(d)
        return
    if 'error' in r:
        corr['errors'].append(r['error'])
        return
    corr['histories'] += r.get('histories', 0)
    corr['ops'] += r.get('ops', 0)
    for k, v in r.get('op_counts', {}).items():
        corr['op_counts'][k] = corr['op_counts'].get(k, 0) + v
    for k, v in r.get('err_classes', {}).items():
        corr['err_classes'][k] = corr['err_classes'].get(k, 0) + v
    for mm in r.get('mismatches', []):
        (corr['mismatches'] if pid in owners(mm) else corr['other_mismatches']).append(mm)
    for of in r.get('oracle_failures', []):
        t = of.get('line', '').split()
        if len(t) > 1 and t[1] == pid:
            corr['oracle_failures'].append(of)
    corr.setdefault('nontrivial', 0)
    corr['nontrivial'] += r.get('nontrivial', {}).get(pid, 0)
    if r.get('sample') and len(samples) < 3:
        samples.append(r['sample'])


def signature(pid, of):
    return of.get('line', '') + ' || ' + ' ; '.join(of.get('replay', [])[-3:])


def nontrivial(pid, corr, extra):
    return corr.get('nontrivial', 0) + extra.get('nontrivial', 0)


def _sh(cmd, timeout=3000, env=None):
    return subprocess.run(cmd, shell=isinstance(cmd, str), stdout=subprocess.PIPE, stderr=subprocess.STDOUT, text=True,
                          timeout=timeout, env=env)


def lock_engine(pid, tier, seed, exe, workdir, V):
    """C08 / C09 static half: regenerate the lock skeleton from /repo's working tree (go/extract),
    recompile Gen/Skeleton.v and Lock/SodCheck.v, read the vm_compute verdicts."""
    res = {'obligations': 1, 'discharged': 0, 'oracle_failures': [], 'samples': [], 'evaluations': 0, 'nontrivial': 0}
    wd = os.path.join(workdir, 'lock')
    r = _sh(['sh', os.path.join(V, 'go', 'extract', 'run.sh'), os.environ.get('VERIF_REPO', '/repo'), wd], timeout=1800,
            env=dict(os.environ, GOFLAGS='-mod=mod', GOPROXY='off', GOSUMDB='off', GOTOOLCHAIN='local'))
    out = r.stdout
    res['summary'] = out[-3000:]
    if r.returncode != 0:
        res['broken'] = 'lock skeleton extraction failed closed or did not compile (exit %d): %s' % (r.returncode, out[-1500:])
        return res
    key = 'C09_lock_order_ok' if pid == 'C09' else 'C08_lockset_ok'
    m = re.search(r'\("%s", (true|false)\)' % key, out)
    ok = bool(m) and m.group(1) == 'true'
    closed = 'assumptions: closed under the global context' in out
    mf = re.search(r'extractor: (\d+) functions, (\d+) entry points', out)
    if mf:
        res['evaluations'] = int(mf.group(1))
        res['nontrivial'] = int(mf.group(2))
    res['samples'] = [{'verdict_lines': [l for l in out.splitlines() if l.startswith('("')][:10]}]
    if ok and closed:
        res['discharged'] = 1
    else:
        tag = 'C09 violation:' if pid == 'C09' else 'C08 violation:'
        sigs = [l for l in out.splitlines() if l.startswith(tag)]
        for sline in sigs:
            res['oracle_failures'].append({'line': '! %s %s' % (pid, sline), 'replay': [sline], 'hist': 'static lock skeleton'})
        if not sigs:
            res['broken'] = 'obligation %s = true does not hold on the generated skeleton: %s' % (key, out[-1500:])
    return res


def race_engine(pid, tier, seed, exe, workdir, V):
    """C08 dynamic half: concurrent workloads under the race detector (hz-race -conc)."""
    res = lock_engine(pid, tier, seed, exe, workdir, V)
    race = os.path.join(os.path.dirname(exe), 'hz-race')
    if not os.path.exists(race):
        return res
    n = 6 if tier == 'quick' else 60
    out = os.path.join(workdir, 'conc.txt')
    r = _sh([race, '-conc', '-seed', str(seed), '-n', str(n), '-out', out], timeout=3000,
            env=dict(os.environ, GORACE='halt_on_error=0 exitcode=0'))
    txt = (open(out).read() if os.path.exists(out) else '') + r.stdout
    res['obligations'] += 0
    races = len(re.findall(r'WARNING: DATA RACE', txt))
    res['summary'] = res.get('summary', '') + '\nrace runs: %d workloads, %d race reports' % (n, races)
    res['evaluations'] += n
    for mm in re.finditer(r'^! C08 (.*)$', txt, re.M):
        res['oracle_failures'].append({'line': '! C08 ' + mm.group(1), 'replay': [], 'hist': 'concurrent workload'})
    if races:
        first = txt[txt.index('WARNING: DATA RACE'):][:1800]
        res['oracle_failures'].append({'line': '! C08 race detector report', 'replay': first.splitlines(), 'hist': 'concurrent workload'})
    return lin_engine(res, tier, seed, exe, workdir, V)


def lin_engine(res, tier, seed, exe, workdir, V):
    """C08: small concurrent histories (2-3 goroutines x 2-4 CRUD calls on one handle, contended unique
    keys, final Count/All), each checked for linearizability against the EXTRACTED sequential model
    (Wing-Gong search in ocaml/driver -lin)."""
    import concurrent.futures
    n = 60 if tier == 'quick' else 1500
    drv = os.path.join(V, 'ocaml', 'driver')

    def one(i):
        out = os.path.join(workdir, 'lin_%d.txt' % i)
        _sh([exe, '-lin', '-seed', str(seed), '-first', str(i * n), '-n', str(n), '-out', out], timeout=3000)
        if not os.path.exists(out):
            return '', ''
        r = subprocess.run([drv, '-lin', out], stdout=subprocess.PIPE, stderr=subprocess.STDOUT, text=True, timeout=3000)
        return open(out).read(), r.stdout
    tot = bad = gave = 0
    with concurrent.futures.ThreadPoolExecutor(max_workers=16) as ex:
        for txt, verdicts in ex.map(one, range(16)):
            hists = {}
            cur = None
            for l in txt.splitlines():
                if l.startswith('hist '):
                    cur = l
                    hists[cur] = []
                elif cur is not None and (l.startswith(('cfg', 'fields', 'op ', 'conc', 'c '))):
                    hists[cur].append(l)
            for l in verdicts.splitlines():
                if not l.startswith('lin '):
                    continue
                tot += 1
                if 'NOT-LINEARIZABLE' in l:
                    bad += 1
                    key = l[4:l.index(' calls=')]
                    res['oracle_failures'].append({'line': '! C08 concurrent history not linearizable w.r.t. the extracted sequential model: ' + key,
                                                   'replay': hists.get(key, [])[:80], 'hist': key})
                elif 'gave-up' in l:
                    gave += 1
    res['evaluations'] += tot
    res['nontrivial'] = res.get('nontrivial', 0) + tot - gave
    res['summary'] = res.get('summary', '') + '\nlinearizability: %d concurrent histories searched against the extracted model, %d not linearizable, %d search budget exceeded' % (tot, bad, gave)
    if tot == 0:
        res['broken'] = 'linearizability engine produced nothing'
    return res


def pair_engine(pid, tier, seed, exe, workdir, V):
    """C12: every history replayed under a pair of configurations, observations compared (model-free)."""
    import concurrent.futures
    n = 40 if tier == 'quick' else 400
    res = {'oracle_failures': [], 'evaluations': 0, 'nontrivial': 0, 'samples': []}

    def one(i):
        out = os.path.join(workdir, 'pair_%d.txt' % i)
        _sh([exe, '-prop', 'C12', '-pair', '-seed', str(seed), '-first', str(i * n), '-n', str(n), '-out', out], timeout=3000)
        return open(out).read() if os.path.exists(out) else ''
    with concurrent.futures.ThreadPoolExecutor(max_workers=16) as ex:
        for txt in ex.map(one, range(16)):
            lines = txt.splitlines()
            for k, l in enumerate(lines):
                if l.startswith('! C12'):
                    rep = lines[k + 1][7:].split(' ;; ') if k + 1 < len(lines) and lines[k + 1].startswith('replay ') else []
                    hdr = [x[2:] for x in lines[max(0, k - 3):k] if x.startswith(('a ', 'b '))]
                    res['oracle_failures'].append({'line': l, 'replay': hdr + rep, 'hist': 'pair'})
                if l.startswith('endpair'):
                    res['evaluations'] += 1
                    mm = re.search(r'ops=(\d+) diffs=0', l)
                    if mm and int(mm.group(1)) > 20:
                        res['nontrivial'] += 1
                if l.startswith('a cfg') and len(res['samples']) < 2:
                    res['samples'].append({'pair': lines[k:k + 2]})
    res['summary'] = '%d configuration pairs replayed' % res['evaluations']
    return res


def golden_engine(pid, tier, seed, exe, workdir, V):
    """C18: golden corpus written by the pinned release + camelToSnake differential."""
    res = {'oracle_failures': [], 'evaluations': 0, 'nontrivial': 0, 'samples': [], 'obligations': 0, 'discharged': 0}
    drv = os.path.join(V, 'ocaml', 'driver')
    t, m = os.path.join(workdir, 'golden_t.txt'), os.path.join(workdir, 'golden_m.txt')
    _sh([exe, '-golden', os.path.join(V, 'golden'), '-seed', str(seed), '-out', t], timeout=3000)
    with open(m, 'w') as f:
        subprocess.run([drv, t], stdout=f, timeout=3000)
    r = _sh([sys.executable, os.path.join(V, 'lib', 'compare.py'), t, m])
    try:
        c = json.loads(r.stdout)
    except Exception:
        res['broken'] = 'golden corpus comparison failed: ' + r.stdout[-500:]
        return res
    res['evaluations'] += c['ops']
    res['nontrivial'] += c['histories']
    for mm in c['mismatches']:
        mm['golden'] = True
        res.setdefault('mismatches', []).append(mm)
    for of in c['oracle_failures']:
        res['oracle_failures'].append(of)
    if c['mismatches']:
        res['broken'] = 'golden directory written by the pinned release: model and current tree disagree: %s' % json.dumps(c['mismatches'][0])[:1500]
    # camelToSnake: implementation vs Gallina on every string over a small alphabet
    sn, si, sm = [os.path.join(workdir, x) for x in ('snake.txt', 'snake_in.txt', 'snake_m.txt')]
    _sh([exe, '-snake', '-out', sn])
    if os.path.exists(sn):
        lines = open(sn).read().split('\n')
        open(si, 'w').write('\n'.join(l.split(' ')[0] for l in lines if l) + '\n')
        with open(sm, 'w') as f:
            subprocess.run([drv, '-snake', si], stdout=f, timeout=600)
        a = [l for l in lines if l]
        b = [l for l in open(sm).read().split('\n') if l]
        res['evaluations'] += len(a)
        bad = [(x, y) for x, y in zip(a, b) if x.split() != y.split()]
        if bad or len(a) != len(b):
            res['oracle_failures'].append({'line': '! C18 camelToSnake differs from the model: impl %r model %r' % (bad[:1] or len(a), len(b)),
                                           'replay': [str(bad[:3])], 'hist': 'snake'})
    # a directory written by the pinned release for a struct with fields of named basic types
    nf = os.path.join(workdir, 'named.txt')
    _sh([exe, '-named-check', os.path.join(V, 'golden-named'), '-out', nf], timeout=600)
    ntxt = open(nf).read() if os.path.exists(nf) else ''
    for l in ntxt.splitlines():
        if l.startswith('! C18'):
            res['oracle_failures'].append({'line': l, 'replay': [l], 'hist': 'golden-named'})
    if 'named done' not in ntxt:
        res['oracle_failures'].append({'line': '! C18 golden/named could not be checked: ' + ntxt[-300:], 'replay': [ntxt[-600:]], 'hist': 'golden-named'})
    res['evaluations'] += 1
    # names of directory entries: uuidExt + the uuid test of uuidsFromDir vs Model/Layout.v
    nm = os.path.join(workdir, 'names.txt')
    _sh([exe, '-names', '-seed', str(seed), '-n', '4000' if tier == 'quick' else '100000', '-out', nm], timeout=600)
    ntx = open(nm).read() if os.path.exists(nm) else ''
    if 'names done' not in ntx:
        res['broken'] = 'names engine did not finish'
    else:
        r2 = subprocess.run([drv, '-names', nm], stdout=subprocess.PIPE, stderr=subprocess.STDOUT, text=True, timeout=600)
        same = 0
        for l in r2.stdout.splitlines():
            if l.startswith('same name'):
                same += 1
            elif l.strip():
                res.setdefault('mismatches', []).append({'op': 'names', 'impl': l[:600], 'model': '', 'replay': [l[:1500]], 'golden': True})
                res['broken'] = 'uuidExt / uuidsFromDir and Model/Layout.v disagree on an entry name: %s' % l[:600]
        res['evaluations'] += same
        res['nontrivial'] += same
    res['summary'] = 'golden directories: %d (+ named types), ops %d; snake strings compared; entry names compared' % (c['histories'], c['ops'])
    return res


def clone_engine(pid, tier, seed, exe, workdir, V):
    """C14: (a) alias correspondence: CloneObject of generated value graphs (implementation, identities
    read off by reflection/unsafe) against the extracted model's clone, path by path; (b) probes through
    the database: mutate after store / after read under cache x async."""
    import concurrent.futures
    n = 60 if tier == 'quick' else 600
    res = {'oracle_failures': [], 'evaluations': 0, 'nontrivial': 0, 'samples': [], 'mismatches': []}
    drv = os.path.join(V, 'ocaml', 'driver')

    def one(i):
        out = os.path.join(workdir, 'clone_%d.txt' % i)
        _sh([exe, '-clone', '-seed', str(seed), '-first', str(i), '-n', str(n), '-out', out], timeout=3000)
        if not os.path.exists(out):
            return '', ''
        r = subprocess.run([drv, '-clone', out], stdout=subprocess.PIPE, stderr=subprocess.STDOUT, text=True, timeout=3000)
        return open(out).read(), r.stdout
    shared = 0
    with concurrent.futures.ThreadPoolExecutor(max_workers=16) as ex:
        for txt, cmpout in ex.map(one, range(16)):
            for l in txt.splitlines():
                if l.startswith('! C14'):
                    res['oracle_failures'].append({'line': l, 'replay': [l], 'hist': 'clone probes'})
                elif l.startswith('probe'):
                    res['evaluations'] += 1
            for l in cmpout.splitlines():
                if l.startswith('same '):
                    res['evaluations'] += 1
                    res['nontrivial'] += 1
                    if '1' in l:
                        shared += 1
                elif l.startswith('DIFF'):
                    res['mismatches'].append({'op': 'clone', 'impl': l[:600], 'model': '', 'replay': [l[:2000]]})
                elif l.strip():
                    res['mismatches'].append({'op': 'clone', 'impl': 'driver: ' + l[:300], 'model': '', 'replay': [l[:600]]})
            if txt and len(res['samples']) < 1:
                res['samples'].append({'value_graph': txt.splitlines()[0][:400]})
    if res['evaluations'] == 0:
        res['broken'] = 'clone engine produced nothing'
    if res['mismatches']:
        res['broken'] = 'CloneObject and the model clone disagree on sharing/shape: %s' % res['mismatches'][0]['impl'][:800]
    res['summary'] = '%d value graphs cloned by implementation and model (%d with a cell shared below an unexported field); probes through the DB under cache x async' % (res['nontrivial'], shared)
    return res


def fuzz_engine(pid, tier, seed, exe, workdir, V):
    """C19: one byte- or structure-level mutation of a valid database directory (or a stray entry), then a
    battery of API calls, each under recover() and a watchdog; outcome class per call."""
    import concurrent.futures
    n = 80 if tier == 'quick' else 1500
    res = {'oracle_failures': [], 'evaluations': 0, 'nontrivial': 0, 'samples': []}
    kinds = {}
    classes = {}

    def one(i):
        out = os.path.join(workdir, 'fuzz_%d.txt' % i)
        r = _sh([exe, '-fuzz19', '-seed', str(seed), '-first', str(i * n), '-n', str(n), '-out', out], timeout=3000)
        txt = open(out).read() if os.path.exists(out) else ''
        if r.returncode != 0:
            # the process died in a case (unrecovered panic in a goroutine of the library): that case is the failing input
            cases = [l for l in txt.splitlines() if l.startswith('case ')]
            death = [l for l in (r.stdout or '').splitlines() if l.startswith(('panic:', 'fatal error:'))]
            where = [l.strip() for l in (r.stdout or '').splitlines() if 'sod.' in l and '(' in l and not l.startswith('panic')]
            if cases:
                k = cases[-1].split()[1]
                txt += '\n! C19 the process died in fuzz case %s (replay: hz -fuzz19 -seed %d -first %s -n 1): %s [%s]\n' % (
                    k, seed, k, (death or ['exit %d' % r.returncode])[0][:300], (where or [''])[0][:200])
        return txt
    with concurrent.futures.ThreadPoolExecutor(max_workers=16) as ex:
        for txt in ex.map(one, range(16)):
            for l in txt.splitlines():
                if l.startswith('! C19'):
                    res['oracle_failures'].append({'line': l, 'replay': [l], 'hist': 'fuzz19'})
                elif l.startswith('fuzz '):
                    res['evaluations'] += 1
                    t = l.split()
                    mk = t[2].split('=', 1)[1].split(':')
                    kinds[':'.join(mk[:2]) if mk[0] != 'json' else 'json:' + ('schema' if mk[1] == 'schema' else 'object')] = kinds.get(':'.join(mk[:2]) if mk[0] != 'json' else 'json:' + ('schema' if mk[1] == 'schema' else 'object'), 0) + 1
                    cs = set(x.split('=')[1] for x in t[3:] if '=' in x)
                    for c in cs:
                        classes[c] = classes.get(c, 0) + 1
                    if cs - {'ok'}:
                        res['nontrivial'] += 1
                    if len(res['samples']) < 2:
                        res['samples'].append({'fuzz': l[:500]})
    if res['evaluations'] == 0:
        res['broken'] = 'fuzz19 engine produced nothing'
    res['summary'] = '%d mutated directories; mutation kinds %s; outcome classes %s' % (res['evaluations'], json.dumps(kinds, sort_keys=True), json.dumps(classes, sort_keys=True))
    return res


def tags_engine(pid, tier, seed, exe, workdir, V):
    """C16: struct tags listing the same options in every order (top level, nested, behind a pointer):
    derived constraints vs the reading of the tag as a set; canonical storage, case-insensitive search and
    uniqueness on canonical values on a collection created from the tags (model-free oracle)."""
    res = {'oracle_failures': [], 'evaluations': 0, 'nontrivial': 0, 'samples': []}
    out = os.path.join(workdir, 'tags.txt')
    _sh([exe, '-tags', '-out', out], timeout=600)
    txt = open(out).read() if os.path.exists(out) else ''
    for l in txt.splitlines():
        if l.startswith('! C16'):
            res['oracle_failures'].append({'line': l, 'replay': [l], 'hist': 'struct tags'})
        elif l.startswith('tag '):
            res['evaluations'] += 1
            res['nontrivial'] += 1
    if 'tags done' not in txt:
        res['broken'] = 'tag engine did not finish: ' + txt[-500:]
    res['summary'] = '%d tagged field paths checked' % res['evaluations']
    return res


def descr_engine(pid, tier, seed, exe, workdir, V):
    """C16/C17: field_desc.go + the constraint walk of constraints.go against Model/Descr.v on struct types
    built at run time (reflect.StructOf): descriptors in slice order, which leaf the walk along each
    constrained path changes on a random value (nil pointers on the way), CompatibleWith /
    FieldsCompatibleWith verdicts on (type, variant) pairs; model-free oracles on the same data."""
    import concurrent.futures
    n = 40 if tier == 'quick' else 600
    res = {'oracle_failures': [], 'evaluations': 0, 'nontrivial': 0, 'samples': [], 'mismatches': []}
    drv = os.path.join(V, 'ocaml', 'driver')

    def one(i):
        out = os.path.join(workdir, 'descr_%d.txt' % i)
        _sh([exe, '-descr', '-seed', str(seed), '-first', str(i * n), '-n', str(n), '-out', out], timeout=3000)
        if not os.path.exists(out):
            return '', ''
        r = subprocess.run([drv, '-descr', out], stdout=subprocess.PIPE, stderr=subprocess.STDOUT, text=True, timeout=3000)
        return open(out).read(), r.stdout
    kinds = {}
    done = 0
    with concurrent.futures.ThreadPoolExecutor(max_workers=16) as ex:
        for txt, cmpout in ex.map(one, range(16)):
            if 'descr done' in txt:
                done += 1
            for l in txt.splitlines():
                if l.startswith('! '):
                    tag = l[2:5]
                    if tag == pid:
                        res['oracle_failures'].append({'line': l[:1500], 'replay': [l[:3000]], 'hist': 'run-time struct types'})
            for l in cmpout.splitlines():
                if l.startswith('same '):
                    res['evaluations'] += 1
                    k = ' '.join(l.split()[:2])
                    if k == 'same walk' and not l.endswith('-'):
                        k = 'same walk (a string leaf reached)'
                        res['nontrivial'] += 1
                    elif k == 'same compat':
                        k = l
                        res['nontrivial'] += 1
                    elif k == 'same descriptors' and not l.endswith(' 0'):
                        res['nontrivial'] += 1
                    elif k == 'same path':
                        k = l
                        if not l.endswith('unknown'):
                            res['nontrivial'] += 1
                    kinds[k] = kinds.get(k, 0) + 1
                elif l.startswith('DIFF'):
                    res['mismatches'].append({'op': 'descr', 'impl': l[:800], 'model': '', 'replay': [l[:4000]]})
                elif l.strip():
                    res['mismatches'].append({'op': 'descr', 'impl': 'driver: ' + l[:300], 'model': '', 'replay': [l[:600]]})
    if done != 16:
        res['broken'] = 'descriptor engine did not finish (%d/16 shards)' % done
    if res['mismatches']:
        res['broken'] = 'field_desc.go / constraints.go and Model/Descr.v disagree: %s' % res['mismatches'][0]['impl'][:800]
    res['distribution'] = kinds
    res['summary'] = '%d comparisons on %d run-time struct types (descriptors, constraint walks, compatibility verdicts): %s' % (res['evaluations'], 16 * n, json.dumps(kinds, sort_keys=True))
    return res


def c16_engine(pid, tier, seed, exe, workdir, V):
    a = tags_engine(pid, tier, seed, exe, workdir, V)
    b = descr_engine(pid, tier, seed, exe, workdir, V)
    for k in ('oracle_failures', 'samples'):
        a[k] = a.get(k, []) + b.get(k, [])
    a['mismatches'] = a.get('mismatches', []) + b.get('mismatches', [])
    a['evaluations'] = a.get('evaluations', 0) + b.get('evaluations', 0)
    a['nontrivial'] = a.get('nontrivial', 0) + b.get('nontrivial', 0)
    if b.get('broken') and not a.get('broken'):
        a['broken'] = b['broken']
    a['summary'] = a.get('summary', '') + '; ' + b.get('summary', '')
    return a


def time_engine(pid, tier, seed, exe, workdir, V):
    """C02 / C13: index keys of time.Time values (newIndexedField), what AssignIndex turns them back into, and
    the objects every comparison selects between stored instants (inside the range of UnixNano, at its ends,
    far outside, the zero time; several locations): against Model/Norm.v (time_key, key_time, key order) and
    against the time ordering itself."""
    rounds = 60 if tier == 'quick' else 2500
    res = {'oracle_failures': [], 'evaluations': 0, 'nontrivial': 0, 'samples': [], 'mismatches': []}
    out = os.path.join(workdir, 'timekey.txt')
    _sh([exe, '-timekey', '-seed', str(seed), '-n', str(rounds), '-out', out], timeout=3000)
    txt = open(out).read() if os.path.exists(out) else ''
    drv = os.path.join(V, 'ocaml', 'driver')
    r = subprocess.run([drv, '-timekey', out], stdout=subprocess.PIPE, stderr=subprocess.STDOUT, text=True, timeout=3000)
    kinds = {}
    seen = set()
    for l in txt.splitlines():
        if l.startswith('! ' + pid):
            # one failure per kind of statement (operator / call, range tag), the first instance as the replay
            k = re.sub(r'\d{4}-\d\d-\d\dT[0-9:.]+Z', 'T', l)
            if k in seen:
                continue
            seen.add(k)
            res['oracle_failures'].append({'line': l[:600], 'replay': [l[:600]], 'hist': 'time keys'})
    for l in r.stdout.splitlines():
        if l.startswith('same '):
            res['evaluations'] += 1
            kinds[l] = kinds.get(l, 0) + 1
            if 'out-of-range' in l or l == 'same ts':
                res['nontrivial'] += 1
        elif l.strip():
            res['mismatches'].append({'op': 'timekey', 'impl': l[:600], 'model': '', 'replay': [l[:1500]]})
    if 'timekey done' not in txt:
        res['broken'] = 'time key engine did not finish: ' + txt[-300:]
    if res['mismatches']:
        res['broken'] = 'indexed_field.go / schema.go (time keys) and Model/Norm.v disagree: %s' % res['mismatches'][0]['impl'][:600]
    res['distribution'] = kinds
    res['summary'] = 'time keys: %d comparisons with Model/Norm.v on %d collections of 4..11 instants: %s' % (res['evaluations'], rounds, json.dumps(kinds, sort_keys=True))
    return res


def _join(a, b):
    for k in ('oracle_failures', 'samples', 'mismatches'):
        a[k] = a.get(k, []) + b.get(k, [])
    for k in ('evaluations', 'nontrivial'):
        a[k] = a.get(k, 0) + b.get(k, 0)
    if b.get('broken') and not a.get('broken'):
        a['broken'] = b['broken']
    a['summary'] = a.get('summary', '') + '; ' + b.get('summary', '')
    return a


def c02_engine(pid, tier, seed, exe, workdir, V):
    """time keys (Model/Norm.v) + field path resolution (Model/Path.v, lines of the descriptor engine)"""
    return _join(time_engine(pid, tier, seed, exe, workdir, V), descr_engine(pid, tier, seed, exe, workdir, V))


def c19_engine(pid, tier, seed, exe, workdir, V):
    """directory fuzzer + arguments battery, and the field path walk on run-time struct values (never panics)"""
    return _join(fuzz_engine(pid, tier, seed, exe, workdir, V), descr_engine(pid, tier, seed, exe, workdir, V))


def c09_engine(pid, tier, seed, exe, workdir, V):
    """static half (lock skeleton regenerated from the tree, lock-order obligation) + calls that must return:
    Drop under load, Drop after a large batch, Close while the storage fails, each under a watchdog"""
    res = lock_engine(pid, tier, seed, exe, workdir, V)
    n = 3 if tier == 'quick' else 40
    out = os.path.join(workdir, 'lockprobes.txt')
    _sh([exe, '-lockprobes', '-seed', str(seed), '-n', str(n), '-out', out], timeout=3000)
    txt = open(out).read() if os.path.exists(out) else ''
    for l in txt.splitlines():
        if l.startswith('! C09'):
            res['oracle_failures'].append({'line': l, 'replay': [l], 'hist': 'lock probes'})
        elif l.startswith('probe '):
            res['evaluations'] += 3
            res['nontrivial'] += 3
    if 'lockprobes done' not in txt:
        res['oracle_failures'].append({'line': '! C09 the lock probes did not finish (harness blocked or dead): ' + txt[-300:], 'replay': txt.splitlines()[-5:], 'hist': 'lock probes'})
    res['summary'] = res.get('summary', '') + '\nlock probes: %d x (Drop under load, Drop after a large batch, Close while the storage fails)' % n
    return res


def run_extra(pid, tier, seed, exe, workdir, V):
    mod = EXTRA.get(pid)
    if mod is None:
        return {}
    return mod(pid, tier, seed, exe, workdir, V)


EXTRA = {'C02': c02_engine, 'C13': time_engine, 'C16': c16_engine, 'C17': descr_engine, 'C14': clone_engine, 'C19': c19_engine, 'C09': c09_engine, 'C08': race_engine, 'C12': pair_engine, 'C18': golden_engine}
