#!/usr/bin/env python3
"""build_design.py: assembles DESIGN.md from lib/design_head.md, the theorem inventory (render_props.py),
lib/design_tail.md, known_findings.json and seeded/*/meta.json. Run by hand when any of them changes."""
import json, subprocess, glob, os
V = '/verif'
head = open(V + '/lib/design_head.md').read()
tail = open(V + '/lib/design_tail.md').read()
inv = subprocess.run(['python3', V + '/lib/render_props.py'], capture_output=True, text=True).stdout
kf = json.load(open(V + '/known_findings.json'))['findings']
fixed = '\n'.join('| %s | %s | `%s` | %s |' % (f['id'], f['property'], f['commit'], f['what']) for f in kf if f['status'] == 'fixed')
known = '\n'.join('| %s | %s | %s |' % (f['id'], f['property'], f['what']) for f in kf if f['status'] != 'fixed')
rows = ['| seeded change | breaks | what it needs to manifest | caught by | how |', '|---|---|---|---|---|']
for mp in sorted(glob.glob(V + '/seeded/*/meta.json')):
    m = json.load(open(mp))
    rows.append('| `%s` %s | %s | %s | %s | %s |' % (os.path.basename(os.path.dirname(mp)), m['summary'], m['property'], m['needs'],
                ', '.join(m['caught_by']) or '**missed**', m['how']))
doc = head + inv + tail.replace('@FIXED@', fixed).replace('@KNOWN@', known).replace('@SEEDED@', '\n'.join(rows))
open(V + '/DESIGN.md', 'w').write(doc)
print('DESIGN.md', len(doc.splitlines()), 'lines')
