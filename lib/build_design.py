#!/usr/bin/env python3
"""build_design.py: assembles DESIGN.md from lib/design_head.md, the theorem inventory (render_props.py),
lib/design_tail.md, known_findings.json and seeded/*/meta.json. Run by hand when any of them changes."""
import json, subprocess, glob, os
V = '/verif'
head = open(V + '/lib/design_head.md').read()
tail = open(V + '/lib/design_tail.md').read()
inv = subprocess.run(['python3', V + '/lib/render_props.py'], capture_output=True, text=True).stdout
kf = json.load(open(V + '/known_findings.json'))['findings']
fixed = '\n'.join('| %s | %s | `%s` | %s |' % (f['id'], f['property'], f['commit'], f['what']) for f in kf if f['status'] == 'fixed')
known = '\n'.join('| %s | %s | %s |' % (f['id'], f['property'], f['what']) for f in kf if f['status'] != 'fixed')
rows = ['| seeded change | breaks | what it needs to manifest | caught by | how |', '|---|---|---|---|---|']
import re
def short(m, mp):
    t = m.get('needs', '')
    if not t or len(t) < 40:
        rd0 = open(os.path.join(os.path.dirname(mp), 'README.md')).read()
        mm = re.search(r'What it needs to manifest\**\s*:\s*(.*?)(?:\n[A-Z][a-z]+ [a-z]*\s*[a-z]*:|\n\s*\n)', rd0, flags=re.S)
        t = re.sub(r'\s+', ' ', mm.group(1)).strip() if mm else ''
    if not t:
        rd = open(os.path.join(os.path.dirname(mp), 'README.md')).read()
        sents = [x for x in re.split(r'(?<=[.:])\s+', re.sub(r'\s+', ' ', rd)) if re.search(r'(?i)\bneeds?\b|manifest|shows? up', x)]
        t = ' '.join(sents[:2])
    t = re.sub(r'^(?i:needs?,? (in order )?to manifest|needs)\**\s*:?\s*', '', t).strip()
    t = t.replace('|', '/')
    return t if len(t) <= 230 else t[:227].rsplit(' ', 1)[0] + ' …'
for mp in sorted(glob.glob(V + '/seeded/*/meta.json')):
    m = json.load(open(mp))
    m['needs'] = short(m, mp)
    m['summary'] = m['summary'].replace('|', '/')
    rows.append('| `%s` %s | %s | %s | %s | %s |' % (os.path.basename(os.path.dirname(mp)), m['summary'], m['property'], m['needs'],
                ', '.join(m['caught_by']) or '**missed**', m['how']))
doc = head + inv + tail.replace('@FIXED@', fixed).replace('@KNOWN@', known).replace('@SEEDED@', '\n'.join(rows))
open(V + '/DESIGN.md', 'w').write(doc)
print('DESIGN.md', len(doc.splitlines()), 'lines')
