#!/usr/bin/env python3
"""compare.py <impl trace> <model trace>: line-by-line comparison of the projected observations
(r / s lines) of the implementation and of the extracted Coq model, per history and per op.
Prints a JSON summary; mismatches carry the history prefix needed to replay them."""
import sys, json, re

def parse(path):
    hists = []  # list of dict(id, header, ops=[(opline, olines, obs)])
    cur = None
    with open(path, errors='replace') as f:
        for raw in f:
            l = ' '.join(raw.split())
            if not l:
                continue
            tag = l.split(' ', 1)[0]
            if tag == 'hist':
                cur = {'id': l, 'header': [], 'ops': [], 'oracle': []}
                hists.append(cur)
            elif cur is None:
                continue
            elif tag in ('cfg', 'fields'):
                cur['header'].append(l)
            elif tag == 'op':
                cur['ops'].append({'op': l[3:], 'o': [], 'obs': []})
            elif tag == 'o' and cur['ops']:
                cur['ops'][-1]['o'].append(l)
            elif tag in ('r', 's') and cur['ops']:
                cur['ops'][-1]['obs'].append(l)
            elif tag == '!':
                cur['oracle'].append((len(cur['ops']), l))
    return hists

def features(h):
    """Non-triviality per property, computed from the IMPLEMENTATION's side of one history."""
    kinds = [o['op'].split(' ', 1)[0] for o in h['ops']]
    res = [(o['obs'][0].split() if o['obs'] else ['r', '?']) for o in h['ops']]
    cls = [r[1] if len(r) > 1 else '?' for r in res]
    cfg = ' '.join(h['header'])
    f = {}
    ok_ins = [i for i, k in enumerate(kinds) if k == 'ins' and cls[i] == 'ok']
    reads = [i for i, k in enumerate(kinds) if k in ('get', 'getu', 'all', 'count', 'exist')]
    f['C01'] = bool(ok_ins) and any(k in ('del', 'sdel', 'delall') for k in kinds) and bool(reads)
    f['C02'] = len(ok_ins) >= 2 and any(k in ('search', 'and', 'or') and cls[i] == 'ok' and len(res[i]) > 2 and res[i][2] not in ('0',) for i, k in enumerate(kinds))
    uniq = [i for i, k in enumerate(kinds) if k in ('ins', 'many', 'bulk') and cls[i] == 'unique']
    f['C03'] = bool(uniq) and any(i > uniq[0] for i in ok_ins)
    f['C07'] = any(k in ('many', 'bulk') and cls[i] != 'ok' for i, k in enumerate(kinds)) and \
        any(k in ('many', 'bulk') and cls[i] == 'ok' and len(res[i]) > 2 and int(res[i][2]) >= 2 for i, k in enumerate(kinds))
    f['C13'] = any(k == 'collect' and cls[i] == 'ok' and h['ops'][i]['op'].split()[-1] == '0' and len(res[i]) > 2 and int(res[i][2]) >= 2 for i, k in enumerate(kinds)) \
        or any(k == 'aidx' and cls[i] == 'ok' and len(res[i]) > 3 for i, k in enumerate(kinds))
    f['C15'] = any(k == 'ins' and cls[i] == 'invalid' for i, k in enumerate(kinds)) and \
        any(k == 'ins' and cls[i] == 'ok' and not h['ops'][i]['op'].split('|')[1].split(',')[16] == 'i0' for i, k in enumerate(kinds))
    flags = (h['header'][1].split()[1:] if len(h['header']) > 1 else [])
    cased = {i for i, fl in enumerate(flags) if fl[2:] != '00'}
    def sfield(op):
        t = op.split()
        return int(t[2] if t[0] == 'search' else t[3])
    f['C16'] = bool(cased) and bool(ok_ins) and any(k in ('search', 'and', 'or') and sfield(h['ops'][i]['op']) in cased for i, k in enumerate(kinds))
    # C20: a collect of a search evaluated before an intervening accepted write
    f['C20'] = False
    evaluated = {}
    last_write = -1
    for i, k in enumerate(kinds):
        t = h['ops'][i]['op'].split()
        if k in ('search', 'and', 'or'):
            evaluated[t[1]] = i
        if k in ('ins', 'del', 'sdel', 'many', 'bulk', 'delall') and cls[i] == 'ok':
            last_write = i
        if k in ('collect', 'one') and t[1] in evaluated and evaluated[t[1]] < last_write:
            f['C20'] = True
    f['C04'] = 'reopen' in kinds and bool(ok_ins) and kinds.index('reopen') > ok_ins[0]
    f['C18'] = 'fs' in kinds and bool(ok_ins)
    f['C06'] = any(k in ('ins', 'many', 'bulk') and cls[i] not in ('ok', '?') for i, k in enumerate(kinds))
    f['C12'] = bool(ok_ins) and bool(reads)
    f['C10'] = 'async=1' in cfg and bool(ok_ins)
    f['C11'] = any(k in ('control', 'repair') for k in kinds)
    f['C19'] = any(c not in ('ok', '?') for c in cls)
    f['C17'] = kinds.count('create') >= 2
    f['C05'] = f['C11']
    key = cfg + '|' + ' '.join(kinds)
    return f, key


def main():
    impl = parse(sys.argv[1])
    model = parse(sys.argv[2])
    res = {'histories': len(impl), 'ops': 0, 'mismatches': [], 'oracle_failures': [], 'op_counts': {}, 'err_classes': {}}
    if len(impl) != len(model):
        res['mismatches'].append({'hist': 'count', 'detail': 'history count %d vs %d' % (len(impl), len(model))})
    seen = {}
    res['nontrivial'] = {}
    for hi in impl:
        try:
            f, key = features(hi)
        except Exception as e:
            continue
        for p, v in f.items():
            if v and (p, key) not in seen:
                seen[(p, key)] = True
                res['nontrivial'][p] = res['nontrivial'].get(p, 0) + 1
    if impl:
        h0 = impl[0]
        res['sample'] = {'history': h0['id'], 'header': h0['header'],
                         'ops': [{'op': o['op'][:200], 'impl': (o['obs'][0][:120] if o['obs'] else '')} for o in h0['ops'][:12]]}
    for hi, hm in zip(impl, model):
        for k, line in hi['oracle']:
            res['oracle_failures'].append({'hist': hi['id'], 'op_index': k, 'line': line,
                                           'replay': hi['header'] + [o['op'] for o in hi['ops'][:k]]})
        n = min(len(hi['ops']), len(hm['ops']))
        bad = None
        for k in range(n):
            a, b = hi['ops'][k], hm['ops'][k]
            res['ops'] += 1
            kind = a['op'].split(' ', 1)[0]
            res['op_counts'][kind] = res['op_counts'].get(kind, 0) + 1
            if a['obs']:
                t = a['obs'][0].split()
                if len(t) > 1 and t[0] == 'r':
                    res['err_classes'][t[1]] = res['err_classes'].get(t[1], 0) + 1
            if a['obs'] == ['r *']:
                continue  # recorded op of a golden history: replayed on the model only
            if a['op'] != b['op'] or a['obs'] != b['obs']:
                bad = k
                break
        if bad is None and len(hi['ops']) != len(hm['ops']):
            bad = n
        if bad is not None:
            a = hi['ops'][bad] if bad < len(hi['ops']) else {'op': '<none>', 'obs': []}
            b = hm['ops'][bad] if bad < len(hm['ops']) else {'op': '<none>', 'obs': []}
            diff = []
            for x, y in zip(a['obs'] + ['<none>'] * 50, b['obs'] + ['<none>'] * 50):
                if x != y:
                    diff = [x, y]
                    break
            res['mismatches'].append({'hist': hi['id'], 'op_index': bad, 'op': a['op'],
                                      'impl': diff[0] if diff else '', 'model': diff[1] if diff else '',
                                      'replay': hi['header'] + [o['op'] for o in hi['ops'][:bad + 1]]})
    json.dump(res, sys.stdout)

if __name__ == '__main__':
    main()
