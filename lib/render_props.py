#!/usr/bin/env python3
"""render_props.py: prints, as markdown, the theorem inventory of every property from lib/props_table.py
(name in Properties/Cnn.v, the lemma it is closed with, the one-line reading). Used to fill DESIGN.md section 4."""
TABLE = eval(open('/verif/lib/props_table.py').read())
for pid in sorted(TABLE):
    spec = TABLE[pid]
    print('**%s — %s** (`coq/Properties/%s.v`, %d theorems)\n' % (pid, spec['title'], pid, len(spec['theorems'])))
    for name, lemma, comment in spec['theorems']:
        print('* `%s` (= `%s`): %s' % (name, lemma, comment))
    print()
