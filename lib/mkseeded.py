#!/usr/bin/env python3
"""mkseeded.py <wtout-dir>: copies confirmed seeded changes (patch.diff, demo_test.go, README.md written by
an independent sub-agent; result.txt written by seedtest.sh) into /verif/seeded/<Cnn-mk>/ with a meta.json."""
import sys, os, re, json, shutil
src = sys.argv[1]
V = '/verif'
for prop in sorted(os.listdir(src)):
    if not re.match(r'C\d\d$', prop):
        continue
    for mk in ('m1', 'm2', 'm3', 'm4', 'm5', 'm6', 'm7', 'm8', 'm9'):
        d = os.path.join(src, prop, mk)
        if not os.path.exists(os.path.join(d, 'patch.diff')) or not os.path.exists(os.path.join(d, 'result.txt')):
            continue
        res = open(os.path.join(d, 'result.txt')).read()
        m = re.search(r'demo_clean_exit=(\d+) demo_mutated_exit=(\d+) suite_with_change_exit=(\w+)', res)
        if not m or m.group(1) != '0' or m.group(2) == '0' or m.group(3) != '0':
            print('NOT CONFIRMED', prop, mk, m.groups() if m else None)
            continue
        readme = open(os.path.join(d, 'README.md')).read()
        title = readme.splitlines()[0].lstrip('# ').strip()
        title = re.sub(r'^C\d\d\s*/\s*m\d\s*[—-]\s*', '', title)
        nm = re.search(r'\*\*What it needs to manifest\*\*\s*:?\s*(.*?)(?:\n\s*\n|\n\*\*)', readme, flags=re.S)
        needs = re.sub(r'\s+', ' ', nm.group(1)).strip() if nm else ''
        if not needs:
            nm = re.search(r'(?i)needs[^\n]*\n?(.*?)(?:\n\s*\n)', readme, flags=re.S)
            needs = re.sub(r'\s+', ' ', nm.group(0)).strip() if nm else ''
        checks = {}
        for cm in re.finditer(r'^check (C\d\d) exit=(\d+) :: (.*?) :: (C\d\d tier=.*)$', res, flags=re.M):
            pid, ex, lines, summary = cm.group(1), int(cm.group(2)), cm.group(3), cm.group(4)
            kind = 'missed'
            if ex != 0:
                kind = 'tie (no-failing-input-found)' if 'no-failing-input-found' in lines and 'VIOLATION' in lines and lines.count('VIOLATION') == lines.count('no-failing-input-found') else 'oracle (failing history)'
            checks[pid] = {'exit': ex, 'kind': kind, 'summary': summary}
        caught = [p for p, c in checks.items() if c['exit'] != 0]
        how = '; '.join('%s: %s' % (p, c['kind']) for p, c in checks.items())
        out = os.path.join(V, 'seeded', '%s-%s' % (prop, mk))
        os.makedirs(out, exist_ok=True)
        for f in ('patch.diff', 'demo_test.go', 'README.md'):
            shutil.copy(os.path.join(d, f), os.path.join(out, f))
        meta = {
            'property': prop, 'summary': title, 'needs': needs[:600],
            'written_by': 'independent sub-agent given only the text of the property and a scratch worktree of /repo',
            'confirmed': {'patch_applies': True, 'suite_passes_with_change': True, 'demo_fails_with_change': True, 'demo_passes_without_change': True},
            'what_was_run': '/verif/seedtest.sh <dir> %s  (scratch worktree of /repo HEAD: go test -run TestDemo$ without and with the patch, the full suite with the patch, then ./check <prop> --tier quick with VERIF_REPO=<worktree>)' % ' '.join(checks),
            'checks': checks, 'caught_by': caught, 'how': how,
        }
        json.dump(meta, open(os.path.join(out, 'meta.json'), 'w'), indent=1)
        print(prop, mk, caught, how)
