#!/bin/bash
# build_model.sh: (re)build the Coq development (full .vo build), extract the model and compile
# the OCaml driver. Incremental.
set -e
cd /verif/coq
[ -f Makefile ] || coq_makefile -f _CoqProject -o Makefile >/dev/null
timeout 3000 make -j16 > /verif/coq/build.log 2>&1 || { tail -30 /verif/coq/build.log; exit 1; }
cd /verif/coq/Extract
if [ ! -f model.ml ] || [ -n "$(find ../Model -name '*.vo' -newer model.ml)" ] || [ Extract.v -nt model.ml ]; then
  timeout 600 coqc -Q .. Sod Extract.v > /dev/null
fi
cd /verif/ocaml
if [ ! -x driver ] || [ ../coq/Extract/model.ml -nt driver ] || [ driver.ml -nt driver ]; then
  cp ../coq/Extract/model.ml ../coq/Extract/model.mli .
  ocamlfind ocamlopt -package zarith -linkpkg -O2 -w -a model.mli model.ml driver.ml -o driver
fi
