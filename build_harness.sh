#!/bin/bash
# build_harness.sh <outdir>: scratch copy of /repo's WORKING TREE, AST-rewritten onto vshim,
# harness built against it (external module, public API only). The scratch copy is removed.
# Result: <outdir>/hz (and <outdir>/hz-race when RACE=1), <outdir>/rewrite.log
set -e
OUT="$1"; mkdir -p "$OUT"
export GOFLAGS=-mod=mod GOPROXY=off GOSUMDB=off GOTOOLCHAIN=local
V=/verif
REPO="${VERIF_REPO:-/repo}"
SC=$(mktemp -d /tmp/vscratch.XXXXXX)
trap 'rm -rf "$SC"' EXIT
mkdir -p "$SC/sod/vshim" "$SC/harness" "$SC/bin"
(cd $V/go/rewrite && go build -o "$SC/bin/rw" .)
"$SC/bin/rw" "$REPO" "$SC/sod" > "$OUT/rewrite.log"
cp "$REPO/go.mod" "$REPO/go.sum" "$SC/sod/"
cp $V/go/vshim/vshim.go "$SC/sod/vshim/"
cp $V/go/export/zz_verif_export.go "$SC/sod/"
cp -r $V/go/harness/. "$SC/harness/"
cp "$REPO/go.sum" "$SC/harness/"
(cd "$SC/harness" && go build -tags verif -o "$OUT/hz" .)
if [ -n "$RACE" ]; then (cd "$SC/harness" && go build -tags verif -race -o "$OUT/hz-race" .); fi
