#!/bin/bash
# build_pinned.sh <outdir>: harness built against the PINNED release e481c06 taken from /repo's
# git history (git archive), rewritten onto vshim like the working tree. Used to (re)generate the
# golden corpus of C18. Result: <outdir>/hz-pinned
set -e
OUT="$1"; mkdir -p "$OUT"
export GOFLAGS=-mod=mod GOPROXY=off GOSUMDB=off GOTOOLCHAIN=local
V=/verif
SC=$(mktemp -d /tmp/vpinned.XXXXXX)
trap 'rm -rf "$SC"' EXIT
mkdir -p "$SC/src" "$SC/sod/vshim" "$SC/harness" "$SC/bin"
git -C /repo archive e481c06 | tar -x -C "$SC/src"
(cd $V/go/rewrite && go build -o "$SC/bin/rw" .)
"$SC/bin/rw" "$SC/src" "$SC/sod" > /dev/null
cp "$SC/src/go.mod" "$SC/src/go.sum" "$SC/sod/"
cp $V/go/vshim/vshim.go "$SC/sod/vshim/"
cp $V/go/export/zz_verif_export.go "$SC/sod/"
cp -r $V/go/harness/. "$SC/harness/"
cp "$SC/src/go.sum" "$SC/harness/"
(cd "$SC/harness" && go build -tags verif -o "$OUT/hz-pinned" .)
