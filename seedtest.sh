#!/bin/bash
# seedtest.sh <dir-with-patch.diff+demo_test.go> <prop> [more props...]
# Development aid (not a registered check): confirms a seeded change in a scratch worktree of /repo
# (applies; suite passes with it; demo fails with it; demo passes without it) and runs the given
# checks against that worktree (VERIF_REPO), leaving /repo untouched. Prints one summary line.
set -u
D="$1"; shift
export GOFLAGS=-mod=mod GOPROXY=off GOSUMDB=off GOTOOLCHAIN=local
WT=$(mktemp -d /tmp/seedwt.XXXXXX); rmdir "$WT"
git -C /repo worktree add --detach "$WT" HEAD -q || exit 2
trap 'git -C /repo worktree remove --force "$WT" 2>/dev/null; rm -rf "$WT" "$OUT"' EXIT
OUT=$(mktemp -d /tmp/seedout.XXXXXX)
R="$D/result.txt"; : > "$R"
cp "$D/demo_test.go" "$WT/zz_demo_test.go"
(cd "$WT" && timeout 300 go test -vet=off -count=1 -run 'TestDemo$' . > "$OUT/demo_clean.log" 2>&1); DC=$?
# (patches were written against earlier commits of /repo: later fix: commits may have moved their context)
if ! git -C "$WT" apply "$D/patch.diff" 2>/dev/null; then
  if ! git -C "$WT" apply -3 "$D/patch.diff" >/dev/null 2>&1 || [ -n "$(git -C "$WT" diff --name-only --diff-filter=U)" ]; then echo "APPLY-FAILED" | tee -a "$R"; exit 2; fi
  git -C "$WT" reset -q
fi
(cd "$WT" && timeout 300 go test -vet=off -count=1 -run 'TestDemo$' . > "$OUT/demo_mut.log" 2>&1); DM=$?
rm "$WT/zz_demo_test.go"
if [ -z "${SKIP_SUITE:-}" ]; then (cd "$WT" && timeout 1500 go test -vet=off -count=1 -timeout 25m ./... > "$OUT/suite.log" 2>&1); SU=$?; if [ $SU -ne 0 ]; then (cd "$WT" && timeout 1500 go test -vet=off -count=1 -timeout 25m ./... > "$OUT/suite.log" 2>&1); SU=$?; fi; else SU=skipped; fi
echo "demo_clean_exit=$DC demo_mutated_exit=$DM suite_with_change_exit=$SU" | tee -a "$R"
tail -5 "$OUT/demo_mut.log" >> "$R"
for P in "$@"; do
  VERIF_REPO="$WT" VERIF_OUT="$OUT" timeout 3000 /verif/check "$P" --tier quick > "$OUT/check_$P.log" 2>&1; C=$?
  echo "check $P exit=$C :: $((grep -E 'VIOLATION' "$OUT/check_$P.log" | head -3; grep -c KNOWN "$OUT/check_$P.log" | sed 's/^/known-finding-lines=/') | tr '\n' ' ') :: $(tail -1 "$OUT/check_$P.log")" | tee -a "$R"
  for f in $(grep -o 'replay=[^ ]*' "$OUT/check_$P.log" | cut -d= -f2 | head -2); do echo "--- $f"; head -c 3000 "$f"; done >> "$R"
done
