package main

// C18: a directory written by the PINNED release for a struct with fields of named basic types
// (golden/named, written by `hz-pinned -named-write`) must open under the current tree with
// identical contents, and must stay loadable after further writes.

import (
	"bufio"
	"fmt"
	"os"
	"path/filepath"
	"sort"
	"time"

	"github.com/0xrawsec/sod"

	"verif/harness/shape"
)

var namedUUIDs = []string{"0a0a0a0a-0000-4000-8000-000000000001", "0a0a0a0a-0000-4000-8000-000000000002", "0a0a0a0a-0000-4000-8000-000000000003"}

func namedObjs() []*shape.Named {
	var out []*shape.Named
	for i, u := range namedUUIDs {
		o := &shape.Named{Sev: shape.Severity(i + 1), Dur: time.Duration(i+1) * time.Minute, Label: fmt.Sprintf("n%d", i), Tags: []shape.Severity{shape.Severity(i), 7}}
		o.Initialize(u)
		out = append(out, o)
	}
	return out
}

func namedWrite(dir string) {
	os.MkdirAll(dir, 0700)
	db := sod.Open(dir)
	if err := db.Create(&shape.Named{}, sod.DefaultSchema); err != nil {
		panic(err)
	}
	for _, o := range namedObjs() {
		if err := db.InsertOrUpdate(o); err != nil {
			panic(err)
		}
	}
	if err := db.Close(); err != nil {
		panic(err)
	}
}

func namedStr(o *shape.Named) string {
	return fmt.Sprintf("%s sev=%d dur=%d label=%s tags=%v", o.UUID(), o.Sev, o.Dur, o.Label, o.Tags)
}

func namedCheck(w *bufio.Writer, golden string) {
	root, _ := os.MkdirTemp("", "hzn")
	defer os.RemoveAll(root)
	copyDir(golden, root)
	sod.LowercaseNames = false
	db := sod.Open(root)
	fail := func(format string, a ...interface{}) {
		fmt.Fprintf(w, "! C18 golden/named (struct with fields of named basic types, written by the pinned release): %s\n", fmt.Sprintf(format, a...))
	}
	want := map[string]string{}
	for _, o := range namedObjs() {
		want[o.UUID()] = namedStr(o)
	}
	read := func(db *sod.DB, stage string, extra int) {
		n, err := db.Count(&shape.Named{})
		if err != nil || n != len(want)+extra {
			fail("%s: Count = %d, %v; want %d", stage, n, err, len(want)+extra)
			return
		}
		objs, err := db.All(&shape.Named{})
		if err != nil {
			fail("%s: All: %v", stage, err)
			return
		}
		var got []string
		for _, o := range objs {
			if s, ok := want[o.UUID()]; ok && s != namedStr(o.(*shape.Named)) {
				fail("%s: object read as %q, want %q", stage, namedStr(o.(*shape.Named)), s)
			}
			got = append(got, o.UUID())
		}
		sort.Strings(got)
		sr := db.Search(&shape.Named{}, "Sev", "=", shape.Severity(2))
		if sr.Err() == nil {
			if sr.Len() != 1 {
				fail("%s: Search Sev = 2: %d results, want 1", stage, sr.Len())
			}
		}
		if err := db.Control(); err != nil {
			fail("%s: Control: %v", stage, err)
		}
	}
	read(db, "opened by the current tree", 0)
	// further writes, then a second generation of handles
	o := &shape.Named{Sev: 9, Dur: time.Hour, Label: "later"}
	if err := db.InsertOrUpdate(o); err != nil {
		fail("insert after opening: %v", err)
	}
	if err := db.Close(); err != nil {
		fail("close: %v", err)
	}
	db2 := sod.Open(root)
	read(db2, "reopened after further writes", 1)
	db2.Close()
	// the field descriptors of schema.json still carry the type names the pinned release wrote
	a, _ := os.ReadFile(filepath.Join(golden, "shape.Named", sod.SchemaFilename))
	b, _ := os.ReadFile(filepath.Join(root, "shape.Named", sod.SchemaFilename))
	for _, key := range []string{`"type":"shape.Severity"`, `"type":"time.Duration"`, `"type":"[]shape.Severity"`} {
		ina, inb := bytesContains(a, key), bytesContains(b, key)
		if ina != inb {
			fail("schema.json: descriptor %s present in the pinned release's file: %v, after a commit by the current tree: %v", key, ina, inb)
		}
	}
	fmt.Fprintf(w, "named done\n")
}

func bytesContains(b []byte, s string) bool {
	return len(s) > 0 && len(b) >= len(s) && (string(b) != "" && (indexOf(string(b), s) >= 0))
}

func indexOf(s, sub string) int {
	for i := 0; i+len(sub) <= len(s); i++ {
		if s[i:i+len(sub)] == sub {
			return i
		}
	}
	return -1
}
