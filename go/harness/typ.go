package main

// Typ: the Go struct type through which the executor talks to sod. Type 1 is shape.Rec; the
// others are the C17 variants (same package name and type name, hence the same stored type
// string and directory, one structural change each). Conversions go through JSON so that one
// flat record format serves all of them.

import (
	"encoding/json"
	"reflect"

	"github.com/0xrawsec/sod"

	"verif/harness/shape"
	sadd "verif/harness/shapeadd"
	sdel "verif/harness/shapedel"
	sreorder "verif/harness/shapereorder"
	sretype "verif/harness/shaperetype"
)

type Typ struct {
	name  string
	shape int // model shape id: 1 = the stored structure
	mk    func() sod.Object
}

var types = map[int]Typ{
	1: {"shape.Rec", 1, func() sod.Object { return &shape.Rec{} }},
	2: {"add", 2, func() sod.Object { return &sadd.Rec{} }},
	3: {"del", 3, func() sod.Object { return &sdel.Rec{} }},
	4: {"retype", 4, func() sod.Object { return &sretype.Rec{} }},
	5: {"reorder", 1, func() sod.Object { return &sreorder.Rec{} }},
}

// fromRec: the variant object holding the same field values (fields it lacks are dropped)
func (t Typ) fromRec(r *shape.Rec) sod.Object {
	if t.name == "shape.Rec" {
		return r
	}
	o := t.mk()
	b, err := json.Marshal(r)
	if err != nil {
		// an unserialisable float (NaN / Inf in F): carried over by hand
		r2 := *r
		r2.F = 0
		b, _ = json.Marshal(&r2)
		json.Unmarshal(b, o)
		if v := reflect.ValueOf(o).Elem().FieldByName("F"); v.IsValid() && v.Kind() == reflect.Float64 && v.CanSet() {
			v.SetFloat(r.F)
		}
	} else {
		json.Unmarshal(b, o)
	}
	o.Initialize(r.UUID())
	return o
}

// toRec: back to shape.Rec (for printing)
func toRec(o sod.Object) *shape.Rec {
	if r, ok := o.(*shape.Rec); ok {
		return r
	}
	r := &shape.Rec{}
	b, _ := json.Marshal(o)
	json.Unmarshal(b, r)
	r.Initialize(o.UUID())
	return r
}
