package main

// Spec: the model-INDEPENDENT oracle. A Go-side finite map of the accepted writes, updated by
// the property text itself (Transform -> schema case transforms -> Validate -> uniqueness),
// and compared with what the implementation returned. It owes nothing to the Coq model; it
// gives the concrete failing input when a tie breaks and stops a model that is wrong in the
// same way as the code from hiding a violation. Failures are written as lines
//   ! <property> <message>
// into the trace.

import (
	"fmt"
	"regexp"
	"sort"
	"strconv"
	"strings"

	"verif/harness/shape"
)

type Spec struct {
	cfg     Cfg
	live    map[int]Flat // uuid number -> last accepted (canonical) value
	off     bool         // oracle suspended (fault ops, storage errors...)
	results map[int]*specRes
	fails   int
	prop    string // property of the running profile (tags the state oracles)

	// observation sweeps (count / all / dump), for the before/after oracles of C06, C07
	sweep     []string // lines of the sweep being collected
	lastSweep string   // digest of the last complete sweep (count+all+dump)
	pending   *failedWrite
	lastDump  []string
	faulted   bool // a storage fault was injected in this history
	lastCtl   string
	lastFault string // "<kind>:<object|schema|dir>" of the injected fault that fired
	faultOp   string // new | update | many | ...

	// C05: state at a simulated crash
	crashCtx   string       // "[crash call=<kind> at=<fault>]" once a crash happened
	preCrash   map[int]Flat // accepted contents before the interrupted call
	crashTouch map[int]Flat // objects the interrupted call was writing (uuid -> new canonical value; deleted: U=-1)
	ackChecked bool
	repaired   bool
	loadFailed bool

	// C17
	variant       int    // Go struct variant of the current handle (1 = the stored structure, 5 = reordered)
	lastHash      string // last directory digest
	hashMustHold  bool
	mute          bool
	reopened      bool // the handle was closed / abandoned and reopened at least once
	prevOp        string
	rmIndexed     bool // the file of an indexed object was removed from outside and nothing since could have dropped its entry or rewritten the file
	rmU           int
	repairPhase   int            // 1: the last non-observing call was a Repair without error; 2: and Control then succeeded (any history)
	rejectedSeen  bool           // a write call of this history was rejected for a logical reason (unique, invalid, json ...)
	lastAll       map[int]string // what the last All returned, by uuid number (nil: not fresh any more)
	damaged       bool           // an object file or schema.json was damaged from outside in a way Repair does not undo
	repairedOK    int            // 1: the previous call was a Repair that returned no error (nothing in between); 2: and Control then succeeded
	afterRepair   string         // sweep (count/all) of the handle after that Repair + Control
	wantSweep     string         // an abandoned handle was reopened right after: the new handle must show this sweep
	switched      bool           // an accepted Create on the existing collection changed cache / asynchronous-write settings (C17)
	justCommitted string         // "flushallc" / "close" when that call returned ok and nothing changed the collection since
	ticksQuiet    int            // flusher ticks since the last call that may leave a write pending (async)
	dirty         bool           // a write may be pending (async mode, since the last flush / commit / close)
	outside       bool           // the directory was modified from outside (fault ops)
	loaded        bool           // the handle has certainly loaded the schema (some call since the last reopen)
	memStale      bool           // schema.json was edited from outside since the handle loaded it
	prev2Op       string
	ixClosed      bool
	ixWant        []string // index dump taken right before the handle was closed or abandoned: the next handle must show the same entries in the same order
}

// failedWrite: a write call that returned an error, with the sweep taken just before it
type failedWrite struct {
	op, class string
	before    string
	isUpdate  bool
}

type specRes struct {
	err string
	us  []int // matching uuid numbers (order as index order when det)
	det bool
	lim int64 // what is left of the limit (-1: none was ever set)
	// C13: the search is a single comparison or a chain of And refinements (no Or) and its last
	// comparison is on the indexed field ordFld (-1: the property promises no order)
	chain  bool
	ordFld int
	keyAt  map[int]string // key of ordFld of every match WHEN THE SEARCH WAS EVALUATED (the snapshot's order)
}

func NewSpec(c Cfg) *Spec {
	return &Spec{cfg: c, live: map[int]Flat{}, results: map[int]*specRes{}}
}

func (s *Spec) fail(e *Exec, prop, format string, a ...interface{}) {
	if s.mute {
		return // replay of a recorded (pinned release) history: its results are not judged
	}
	s.fails++
	msg := fmt.Sprintf(format, a...)
	fmt.Fprintf(e.w, "! %s %s\n", prop, msg)
	// the same failing history also violates the property whose scenario it is:
	//  - what is read after a close/reopen (or an abandoned handle) contradicts what was accepted
	//    before it: C04 (and the stored layout did not survive: C18 judges that with its walker);
	//  - the CONTENT read back is not the transformed / canonical form of what was accepted: C15
	//    (Transform gate) and C16 (case constraints) when their scenario is being run
	extra := map[string]bool{}
	if s.reopened && (prop == "C01" || prop == "C02" || prop == "C03" || prop == "C13" || prop == "C16") {
		extra["C04"] = true
	}
	if s.reopened && s.prop == "C18" && (prop == "C01" || prop == "C02" || prop == "C03" || prop == "C13") {
		// ... and what was stored under the names and the format of the previous handle is not read back: C18
		extra["C18"] = true
	}
	if (s.prop == "C15" || s.prop == "C16") && (prop == "C01" || prop == "C02" || prop == "C03" || prop == "C07") {
		extra[s.prop] = true
	}
	if s.cfg.Async && (prop == "C01") {
		extra["C10"] = true
	}
	//  - "Create ... may switch cache and asynchronous-write settings at any time without losing
	//    pending writes": what is read after such a switch contradicts what was accepted: C17
	//  - a read that contradicts the map in a history where a write was REJECTED: the rejected call may
	//    have left a trace that shows only later (after a flush, a restart): C06 when its scenario runs
	if s.rejectedSeen && s.prop == "C06" && (prop == "C01" || prop == "C02" || prop == "C03" || prop == "C10") {
		extra["C06"] = true
	}
	if s.switched && (prop == "C01" || prop == "C02" || prop == "C03" || prop == "C10" || prop == "C13") {
		extra["C17"] = true
	}
	delete(extra, prop)
	for _, x := range []string{"C04", "C06", "C10", "C15", "C16", "C17", "C18"} {
		if extra[x] {
			fmt.Fprintf(e.w, "! %s [%s] %s\n", x, prop, msg)
		}
	}
}

// canon: expected stored form of a record: Transform, case transforms, then Validate verdict
func (s *Spec) canon(f Flat) (Flat, bool) {
	r := flatToRec(f)
	r.Transform()
	up := func(i int, p *string) {
		if s.cfg.Cons[i][2] == '1' {
			*p = strings.ToUpper(*p)
		}
		if s.cfg.Cons[i][3] == '1' {
			*p = strings.ToLower(*p)
		}
	}
	up(shape.FS, &r.S)
	up(shape.FK, &r.K)
	if r.N != nil {
		up(shape.FNY, &r.N.Y)
		if r.N.D != nil {
			up(shape.FNDW, &r.N.D.W)
		}
	}
	up(shape.FNVQ, &r.NV.Q)
	valid := r.Validate() == nil
	return recToFlat(r, f.U), valid
}

func serialisable(f Flat) bool {
	for _, k := range f.K {
		if k == "fnan" || k == "f9218868437227405312" || k == "f-9218868437227405312" {
			return false
		}
	}
	return true
}

// conflict: another live object holds an equal value in a unique field
func (s *Spec) conflict(f Flat, live map[int]Flat) bool {
	for i := 0; i < NF; i++ {
		if s.cfg.Cons[i][1] != '1' {
			continue
		}
		for u, o := range live {
			if u != f.U && keyEq(o.K[i], f.K[i]) {
				return true
			}
		}
	}
	return false
}

func keyEq(a, b string) bool { return keyCmp(a, b) == 0 }

// keyCmp: Go's own ordering of the underlying values; 2 = unordered (NaN / kind mismatch)
func keyCmp(a, b string) int {
	if a[0] != b[0] {
		return 2
	}
	switch a[0] {
	case 'i':
		x, y := idec(a), idec(b)
		switch {
		case x < y:
			return -1
		case x > y:
			return 1
		}
		return 0
	case 'u':
		x, y := udec(a), udec(b)
		switch {
		case x < y:
			return -1
		case x > y:
			return 1
		}
		return 0
	case 'f':
		x, y := fdecode(a), fdecode(b)
		switch {
		case x < y:
			return -1
		case x > y:
			return 1
		case x == y:
			return 0
		}
		return 2
	case 's':
		return strings.Compare(sdecode(a), sdecode(b))
	}
	return 2
}

func evalOp(op string, fieldKey, probe string) bool {
	if op == "rx" {
		if fieldKey[0] != 's' || probe[0] != 's' {
			return false
		}
		re, err := regexp.Compile(sdecode(probe))
		if err != nil {
			return false
		}
		return re.MatchString(sdecode(fieldKey))
	}
	c := keyCmp(fieldKey, probe)
	if c == 2 {
		return op == "ne"
	}
	switch op {
	case "eq":
		return c == 0
	case "ne":
		return c != 0
	case "lt":
		return c < 0
	case "le":
		return c <= 0
	case "gt":
		return c > 0
	case "ge":
		return c >= 0
	}
	return false
}

func (s *Spec) canonProbe(fld int, probe string) string {
	if fld < 0 || fld >= NF || probe[0] != 's' {
		return probe
	}
	v := sdecode(probe)
	if s.cfg.Cons[fld][2] == '1' {
		v = strings.ToUpper(v)
	}
	if s.cfg.Cons[fld][3] == '1' {
		v = strings.ToLower(v)
	}
	return stok(v)
}

func (s *Spec) sortedLive() []int {
	var us []int
	for u := range s.live {
		us = append(us, u)
	}
	sort.Ints(us)
	return us
}

func kindOfTok(t string) byte { return t[0] }

// Check compares the implementation's r line(s) of the op just executed with the oracle
func (s *Spec) Check(e *Exec, t []string) {
	if len(e.obs) == 0 {
		return
	}
	var r []string
	fresh := []int{}
	for _, l := range e.obs {
		ft := strings.Fields(l)
		if len(ft) == 0 {
			continue
		}
		if ft[0] == "r" && r == nil {
			r = ft[1:]
		}
		if ft[0] == "o" && len(ft) > 1 && ft[1] == "fresh" {
			for _, x := range ft[2:] {
				n, _ := strconv.Atoi(x)
				fresh = append(fresh, n)
			}
		}
		if ft[0] == "o" && len(ft) > 2 && ft[1] == "existafter" && ft[2] == "1" && !s.off && !s.mute && t[0] == "ins" {
			s.fail(e, "C06", "a refused insertion of a new object left a trace at once: Exist answers true for it (op %.80s)", strings.Join(t, " "))
		}
		if ft[0] == "o" && len(ft) > 2 && ft[1] == "snap" {
			// a process death now (C05): the new process must be told, or index and files agree
			if !s.faulted && !s.outside && !s.damaged && s.crashCtx == "" && !s.mute && s.variant <= 1 &&
				(strings.HasPrefix(ft[2], "silent") || ft[2] == "panic") {
				s.fail(e, "C05", "[process death after %s] a new process opening the directory is told nothing (first load and Control succeed) but %s", t[0], ft[2])
				s.fail(e, "C11", "Control on a fresh handle succeeds although %s", ft[2])
			}
			// synchronous mode (every completed call has committed), or right after FlushAllAndCommit /
			// Close: the new process must find exactly the accepted collection, not a corruption
			if !s.off && !s.faulted && !s.outside && !s.damaged && s.crashCtx == "" && !s.mute && s.variant <= 1 &&
				(!e.cfg.Async || s.justCommitted != "") {
				want := fmt.Sprintf("agree:%d", len(s.live))
				if ft[2] != want && ft[2] != "nodir" && ft[2] != "childfailed" {
					for _, pr := range []string{"C04", "C05", "C17"} {
						if pr == "C17" && !(t[0] == "create" || s.prevOp == "create") {
							continue
						}
						s.fail(e, pr, "[process death after a completed %s, nothing pending] a new process opening the directory finds %q instead of the %d accepted objects", s.prevOp, ft[2], len(s.live))
					}
				}
			}
		}
		if ft[0] == "o" && len(ft) > 1 && ft[1] == "fault" && ft[2] == "fired=1" {
			s.off = true
			s.faulted = true
			s.lastFault = strings.TrimPrefix(ft[len(ft)-1], "at=")
			s.faultOp = "new"
			if t[0] == "ins" && !strings.HasPrefix(t[1], "R0|") {
				s.faultOp = "update"
			} else if t[0] != "ins" {
				s.faultOp = t[0]
			}
		}
	}
	if r == nil {
		return
	}
	if r[0] == "crash" {
		s.onCrash(e, t, fresh)
		return
	}
	if s.c17(e, t, r) {
		return
	}
	s.stateOracles(e, t, r)
	if s.crashCtx != "" {
		s.afterCrash(e, t, r)
	}
	if r[0] == "panic" || r[0] == "hang" {
		s.fail(e, "C19", "op %q: %s", strings.Join(t, " "), r[0])
		return
	}
	switch t[0] {
	case "rmfile", "corrupt", "truncfile", "addfile", "rmschema", "rmentry", "rmfentry", "stray", "failat", "drop":
		s.off = true
	}
	if s.off {
		return
	}
	switch t[0] {
	case "ins":
		f := parseFlat(t[1])
		if f.U == 0 && len(fresh) > 0 {
			f.U = fresh[0]
		}
		want := "ok"
		cf, valid := s.canon(f)
		switch {
		case !valid:
			want = "invalid"
		case !serialisable(cf):
			want = "json"
		case s.conflict(cf, s.live):
			want = "unique"
		}
		if r[0] != want {
			prop := "C03"
			if want == "invalid" || r[0] == "invalid" {
				prop = "C15"
			}
			if want == "json" {
				prop = "C06"
			}
			s.fail(e, prop, "ins %s: got %s want %s", t[1], r[0], want)
		}
		if r[0] == "ok" {
			if parseFlat(t[1]).U == 0 {
				if _, dup := s.live[f.U]; dup || f.U == 0 {
					s.fail(e, "C01", "new object received uuid #%d which is not fresh", f.U)
				}
			}
			s.live[f.U] = cf
		}
	case "many", "bulk":
		s.checkBatch(e, t, r, fresh)
	case "del":
		u, _ := strconv.Atoi(t[1])
		delete(s.live, u)
	case "delall":
		if r[0] == "ok" {
			s.live = map[int]Flat{}
		}
	case "get", "getu":
		u, _ := strconv.Atoi(t[1])
		want, ok := s.live[u]
		if !ok {
			if r[0] == "ok" {
				s.fail(e, "C01", "%s of absent uuid #%d returned an object", t[0], u)
			}
		} else if r[0] != "ok" || len(r) < 2 || r[1] != want.String() {
			s.fail(e, "C01", "%s #%d: got %v want %s", t[0], u, r, want)
		}
	case "exist":
		u, _ := strconv.Atoi(t[1])
		_, ok := s.live[u]
		if r[0] != "ok" || r[1] != b2s(ok) {
			s.fail(e, "C01", "exist #%d: got %v want %s", u, r, b2s(ok))
		}
	case "count":
		if r[0] != "ok" || r[1] != strconv.Itoa(len(s.live)) {
			s.fail(e, "C01", "count: got %v want %d", r, len(s.live))
		}
	case "all":
		var want []string
		for _, u := range s.sortedLive() {
			want = append(want, s.live[u].String())
		}
		got := ""
		if len(r) > 2 {
			got = strings.Join(r[2:], " ")
		}
		if r[0] != "ok" || got != strings.Join(want, " ") {
			s.fail(e, "C01", "all: got %v want %v", r, want)
		}
	case "search", "and", "or":
		s.checkSearch(e, t, r)
	case "len":
		sid, _ := strconv.Atoi(t[1])
		if sr := s.results[sid]; sr != nil && sr.err == "ok" && r[1] != strconv.Itoa(len(sr.us)) {
			s.fail(e, "C02", "len: got %s want %d", r[1], len(sr.us))
		}
	case "expects":
		// Expects(n) / ExpectsZeroOrN(n): the value fails from now on exactly when the number of
		// entries it denotes is not the expected one (C19: a failed value denotes nothing)
		sid, _ := strconv.Atoi(t[1])
		n, _ := strconv.Atoi(t[2])
		if sr := s.results[sid]; sr != nil && sr.err == "ok" {
			found := len(sr.us)
			okExp := found == n || (t[3] == "1" && found == 0)
			if okExp && r[0] != "ok" {
				s.fail(e, "C02", "Expects(%d) on a search denoting %d objects: got %s", n, found, r[0])
			}
			if !okExp {
				if r[0] != "unexpectedn" {
					s.fail(e, "C19", "Expects(%d) on a search denoting %d objects: got %s, want the unexpected-number-of-results error", n, found, r[0])
				}
				sr.err = "unexpectedn"
			}
		}
	case "collect", "one":
		s.checkCollect(e, t, r)
	case "sdel":
		sid, _ := strconv.Atoi(t[1])
		if sr := s.results[sid]; sr != nil && sr.err == "ok" && r[0] == "ok" {
			for _, u := range sr.us {
				delete(s.live, u)
			}
		}
	case "aidx":
		fld, _ := strconv.Atoi(t[1])
		if r[0] == "ok" {
			var want []string
			for _, u := range s.live {
				want = append(want, u.K[fld])
			}
			got := append([]string{}, r[1:]...)
			for i := 1; i < len(got); i++ {
				if c := keyCmp(got[i-1], got[i]); c < 0 || c == 2 {
					s.fail(e, "C13", "AssignIndex field %d not in non-increasing order: %v", fld, got)
					break
				}
			}
			sort.Strings(want)
			sort.Strings(got)
			if strings.Join(want, " ") != strings.Join(got, " ") {
				s.fail(e, "C13", "AssignIndex field %d: got %v want %v", fld, got, want)
			}
		}
	case "reopen":
		s.results = map[int]*specRes{}
		s.reopened = true
	}
}

func (s *Spec) checkBatch(e *Exec, t, r []string, fresh []int) {
	i := 1
	csize := 0
	if t[0] == "bulk" {
		csize, _ = strconv.Atoi(t[1])
		i = 2
	}
	var members []Flat
	fi := 0
	for ; i < len(t); i++ {
		if t[i] == "OTHER" {
			members = append(members, Flat{U: -1})
			continue
		}
		f := parseFlat(t[i])
		if f.U == 0 {
			if fi < len(fresh) {
				f.U = fresh[fi]
			}
			fi++
		}
		members = append(members, f)
	}
	// chunks
	var chunks [][]Flat
	if t[0] == "many" {
		chunks = [][]Flat{members}
	} else {
		cur := []Flat{}
		for _, m := range members {
			cur = append(cur, m)
			if len(cur) == csize {
				chunks = append(chunks, cur)
				cur = []Flat{}
			}
		}
		chunks = append(chunks, cur)
	}
	n := 0
	want := "ok"
	for _, ch := range chunks {
		// the property text: a member conflicts with a STORED object (the contents before
		// the chunk) or with another member of the chunk
		tmp := map[int]Flat{}
		batch := map[int]Flat{}
		for k, v := range s.live {
			tmp[k] = v
		}
		ok := true
		if len(ch) > 0 && ch[0].U == -1 {
			// first member of another type: the whole chunk goes to the other collection or fails
			allOther := true
			for _, m := range ch {
				if m.U != -1 {
					allOther = false
				}
			}
			if allOther {
				n += len(ch)
				continue
			}
			want = "wrongtype"
			break
		}
		for _, m := range ch {
			if m.U == -1 {
				ok, want = false, "wrongtype"
				break
			}
			cf, valid := s.canon(m)
			if !valid {
				ok, want = false, "invalid"
				break
			}
			if !serialisable(cf) {
				ok, want = false, "json"
				break
			}
			if s.conflict(cf, s.live) || s.conflict(cf, batch) {
				ok, want = false, "unique"
				break
			}
			tmp[cf.U] = cf
			batch[cf.U] = cf
		}
		if !ok {
			break
		}
		s.live = tmp
		n += len(ch)
	}
	if want == "json" {
		// outside the oracle: a batch with an unserialisable member (checked by C06's sweep)
		s.off = true
		return
	}
	if r[0] != want || r[1] != strconv.Itoa(n) {
		s.fail(e, "C07", "%s: got (%s,%s) want (%s,%d)", t[0], r[0], r[1], want, n)
		if want == "invalid" || r[0] == "invalid" {
			s.fail(e, "C15", "%s: got (%s,%s) want (%s,%d): the Validate gate of the batch path", t[0], r[0], r[1], want, n)
		}
		if want == "unique" || r[0] == "unique" {
			s.fail(e, "C03", "%s: got (%s,%s) want (%s,%d): uniqueness on the batch path", t[0], r[0], r[1], want, n)
		}
	}
}

func (s *Spec) eval(fld int, op, probe string, from []int) (string, []int) {
	if fld < 0 || fld >= NF {
		return "unknownfield", nil
	}
	if _, ok := opNames[op]; !ok || op == "bad" {
		return "unknownop", nil
	}
	if probe[0] != shape.Kinds[fld] {
		return "casting", nil
	}
	p := s.canonProbe(fld, probe)
	if op == "rx" && probe[0] == 's' {
		if _, err := regexp.Compile(sdecode(p)); err != nil {
			return "badpattern", nil
		}
	}
	var out []int
	for _, u := range from {
		if o, ok := s.live[u]; ok && evalOp(op, o.K[fld], p) {
			out = append(out, u)
		}
	}
	return "ok", out
}

func (s *Spec) checkSearch(e *Exec, t, r []string) {
	sid, _ := strconv.Atoi(t[1])
	i := 2
	var old *specRes
	if t[0] != "search" {
		o, _ := strconv.Atoi(t[2])
		old = s.results[o]
		i = 3
	}
	fld, _ := strconv.Atoi(t[i])
	op, probe := t[i+1], t[i+2]
	res := &specRes{lim: -1, ordFld: -1}
	s.results[sid] = res
	res.chain = t[0] == "search" || (t[0] == "and" && old != nil && old.chain)
	if res.chain && s.cfg.indexed(fld) {
		res.ordFld = fld
	}
	defer func() {
		if res.ordFld >= 0 && res.err == "ok" {
			res.keyAt = map[int]string{}
			for _, u := range res.us {
				res.keyAt[u] = s.live[u].K[res.ordFld]
			}
		}
	}()
	if old != nil && old.err == "unchecked" {
		res.err = "unchecked"
		return
	}
	if old != nil && old.err != "ok" {
		// a failed search stays failed
		res.err = old.err
		if r[0] == "ok" {
			s.fail(e, "C19", "%s on a failed search yields no error", t[0])
		}
		return
	}
	from := s.sortedLive()
	if t[0] == "and" && old != nil {
		from = old.us
	}
	res.err, res.us = s.eval(fld, op, probe, from)
	if t[0] == "or" && old != nil && res.err == "ok" {
		seen := map[int]bool{}
		for _, u := range res.us {
			seen[u] = true
		}
		for _, u := range old.us {
			if !seen[u] {
				res.us = append(res.us, u)
			}
		}
	}
	if fld == 98 || fld == 97 {
		// documented-unclear argument classes: only "no panic" is required (done above)
		res.err = "unchecked"
		return
	}
	if t[0] == "and" && old != nil {
		// refining a result some of whose objects were deleted since: error or omission (C20)
		for _, u := range old.us {
			if _, ok := s.live[u]; !ok && r[0] != "ok" {
				res.err = r[0]
				return
			}
		}
	}
	if res.err != "ok" {
		if r[0] == "ok" {
			s.fail(e, "C19", "%s field=%d op=%s probe=%s: no error, want %s", t[0], fld, op, probe, res.err)
		} else if r[0] != res.err && !(res.err == "unknownop" && r[0] == "casting") && !(res.err == "casting" && r[0] == "unknownop") {
			s.fail(e, "C19", "%s field=%d op=%s probe=%s: got %s want %s", t[0], fld, op, probe, r[0], res.err)
		}
		res.err = r[0]
		if res.err == "ok" {
			res.err = "other"
		}
		return
	}
	if r[0] != "ok" {
		s.fail(e, "C02", "%s field=%d op=%s probe=%s: got error %s", t[0], fld, op, probe, r[0])
		res.err = r[0]
		return
	}
	if r[1] != strconv.Itoa(len(res.us)) {
		s.fail(e, "C02", "%s field=%d op=%s probe=%s: %s matches, want %d %v", t[0], fld, op, probe, r[1], len(res.us), res.us)
	}
}

func (s *Spec) checkCollect(e *Exec, t, r []string) {
	sid, _ := strconv.Atoi(t[1])
	sr := s.results[sid]
	if sr == nil {
		return
	}
	if sr.err == "unchecked" {
		return
	}
	if sr.err != "ok" {
		if r[0] == "ok" {
			s.fail(e, "C19", "%s on a failed search returned no error", t[0])
		}
		return
	}
	// the snapshot: every collected object matched at evaluation time, at most once (C20);
	// objects deleted since are reported as an error or omitted
	mode := 0
	if t[0] == "collect" {
		mode, _ = strconv.Atoi(t[4])
	}
	s.checkOrder(e, t, r, sr)
	if mode == 2 || len(r) < 2 {
		return
	}
	matched := map[int]bool{}
	for _, u := range sr.us {
		matched[u] = true
	}
	seen := map[int]bool{}
	for _, tok := range r[2:] {
		f := parseFlat(tok)
		if !matched[f.U] {
			s.fail(e, "C20", "%s returned #%d which did not match when the search was evaluated", t[0], f.U)
		}
		if seen[f.U] {
			s.fail(e, "C20", "%s returned #%d twice", t[0], f.U)
		}
		seen[f.U] = true
		if cur, ok := s.live[f.U]; !ok {
			s.fail(e, "C20", "%s returned deleted object #%d", t[0], f.U)
		} else if cur.String() != tok {
			s.fail(e, "C01", "%s returned stale content for #%d", t[0], f.U)
		}
	}
}

// checkOrder (C13): what Collect / One returned, in the order it was returned (e.lastColl, before
// any canonicalisation), against the property itself: non-increasing in the last searched field
// when it is indexed (non-decreasing when reversed), exactly min(limit, matches) objects, One = an
// object holding the greatest key (smallest when reversed).  Only when no matched object was
// deleted since the evaluation (then an error or an omission is allowed: C20).
func (s *Spec) checkOrder(e *Exec, t, r []string, sr *specRes) {
	for _, u := range sr.us {
		if _, ok := s.live[u]; !ok {
			sr.lim = -2 // unknown from now on
			return
		}
	}
	if s.off || sr.lim == -2 {
		return
	}
	rev := e.lastRev
	cur := sr.lim
	if t[0] == "one" {
		cur = 1
	} else if l, _ := strconv.ParseInt(t[2], 10, 64); l >= 0 {
		cur = l
	}
	want := int64(len(sr.us))
	if cur >= 0 && cur < want {
		want = cur
	}
	// what a Collect WITHOUT a new Limit returns after an earlier limited Collect (the code keeps
	// the unconsumed remainder) is outside the property text: not judged here
	explicit := t[0] == "one" || sr.lim == -1 || cur != sr.lim || (t[0] == "collect" && t[2] != "-1")
	if t[0] == "one" {
		if len(sr.us) == 0 {
			if r[0] != "noobject" {
				s.fail(e, "C13", "one on an empty result: got %s want the no-object error", r[0])
			}
			return
		}
	}
	if r[0] != "ok" {
		return // read errors are judged elsewhere (C01 / C19)
	}
	got := e.lastColl
	if explicit && int64(len(got)) != want {
		s.fail(e, "C13", "%s limit=%d on %d matches returned %d objects, want %d", t[0], cur, len(sr.us), len(got), want)
	}
	if cur >= 0 {
		sr.lim = cur - int64(len(got))
		if sr.lim < 0 {
			sr.lim = 0
		}
	}
	if sr.ordFld < 0 {
		return
	}
	f := sr.ordFld
	for _, g := range got {
		if _, ok := sr.keyAt[g.U]; !ok {
			return // not a match of the snapshot: C20's business
		}
	}
	for i := 1; i < len(got); i++ {
		c := keyCmp(sr.keyAt[got[i-1].U], sr.keyAt[got[i].U])
		if c == 2 || (!rev && c < 0) || (rev && c > 0) {
			s.fail(e, "C13", "%s rev=%v: result not ordered on indexed field %d: %s before %s", t[0], rev, f, sr.keyAt[got[i-1].U], sr.keyAt[got[i].U])
			break
		}
	}
	// the returned prefix holds the extreme keys of the match set
	if len(got) > 0 && len(got) < len(sr.us) {
		last := sr.keyAt[got[len(got)-1].U]
		in := map[int]bool{}
		for _, g := range got {
			in[g.U] = true
		}
		for _, u := range sr.us {
			if in[u] {
				continue
			}
			c := keyCmp(sr.keyAt[u], last)
			if c != 2 && ((!rev && c > 0) || (rev && c < 0)) {
				s.fail(e, "C13", "%s rev=%v limit=%d: #%d (key %s) was left out although it precedes the last returned key %s on field %d", t[0], rev, cur, u, sr.keyAt[u], last, f)
				break
			}
		}
	}
}

// stateOracles: model-independent before/after and agreement oracles.
//   - a write call which returned a LOGICAL error must leave the observation sweep unchanged
//     (C06; C07 for batches; C15 for invalid objects);
//   - after a STORAGE fault either the sweep is unchanged, or Control reports it;
//   - whenever an index dump is followed by a directory dump with no write pending, every index
//     entry must agree with the file content of its object and every index must be sorted.
func (s *Spec) stateOracles(e *Exec, t, r []string) {
	// Repair ... Control ... (sweep) ... abandoned handle reopened: what the new handle shows
	switch t[0] {
	case "corrupt", "truncfile", "rmschema", "rmentry", "rmfentry", "stray", "drop", "failat", "crashat":
		s.damaged = true
	}
	switch t[0] {
	case "rmfile":
		if r[0] == "ok" && s.loaded && !s.outside && !s.off {
			// (nothing was done to the directory from outside before: the object is indexed)
			s.rmIndexed = true
			s.rmU, _ = strconv.Atoi(t[1])
		}
	case "del", "delall", "sdel", "repair", "reopen", "vopen", "close", "drop", "create", "crashat", "failat", "rmentry", "rmfentry", "rmschema",
		"flushall", "flushallc", "flush1", "flush1c", "tick", "addfile":
		// (the entry may be dropped, or the file written again by a flush of a pending update)
		s.rmIndexed = false
	case "ins", "many", "bulk":
		// an update of that very object writes its file again (synchronous) or may be flushed at once (threshold)
		// (asynchronous: nothing is written before the next flush or tick, which reset the flag)
		if !e.cfg.Async && strings.Contains(strings.Join(t[1:], " "), fmt.Sprintf("R%d|", s.rmU)) {
			s.rmIndexed = false
		}
	}
	switch t[0] {
	case "repair":
		s.repairPhase = 0
		if r[0] == "ok" {
			s.repairPhase = 1
		}
	case "control":
		if s.repairPhase == 1 && r[0] == "ok" {
			s.repairPhase = 2
		} else if s.repairPhase != 2 {
			s.repairPhase = 0
		}
	case "count", "all", "dump", "fs", "schema":
	default:
		s.repairPhase = 0
	}
	switch t[0] {
	case "repair":
		s.repairedOK, s.afterRepair, s.wantSweep = 0, "", ""
		if r[0] == "ok" && !s.damaged {
			s.repairedOK = 1
		}
	case "control", "count", "all", "dump", "fs", "schema":
		// observations: keep the state
	case "reopen":
		// synchronous mode: "the same holds without Close after any completed call, because every
		// mutating call commits" (C04): Repair is such a call
		if s.repairedOK == 2 && s.afterRepair != "" && !e.cfg.Async && !s.faulted && s.crashCtx == "" && s.prevOp != "close" {
			s.wantSweep = s.afterRepair
		}
		s.repairedOK, s.afterRepair = 0, ""
	default:
		s.repairedOK, s.afterRepair, s.wantSweep = 0, "", ""
	}
	defer func() { s.prev2Op, s.prevOp = s.prevOp, t[0] }()
	// SAME ORDERING after a restart: dump, (close,) reopen, dump with nothing in between: every field index lists the
	// same entries in the same order (ties included), the id table is the same
	ixOf := func(ls []string) []string {
		var out []string
		for _, l := range ls {
			if strings.HasPrefix(l, "s ix ") || strings.HasPrefix(l, "s ids ") {
				out = append(out, l)
			}
		}
		return out
	}
	switch t[0] {
	case "reopen":
		s.ixWant = nil
		if r[0] == "ok" && s.lastDump != nil && !s.outside && !s.off && !s.damaged && s.crashCtx == "" &&
			(s.prevOp == "dump" || (s.prevOp == "close" && s.prev2Op == "dump")) && (s.prevOp == "close" || !e.cfg.Async) {
			s.ixWant = ixOf(s.lastDump)
			s.ixClosed = s.prevOp == "close"
		}
	case "dump":
		if s.ixWant != nil && r[0] == "ok" {
			got := ixOf(e.obs)
			if strings.Join(got, "\n") != strings.Join(s.ixWant, "\n") && !s.mute {
				s.fail(e, "C04", "same ordering: the index a new handle loads differs from the index the previous handle held when it was %s: before [%.300s] after [%.300s]",
					map[bool]string{true: "closed", false: "abandoned (synchronous mode)"}[s.ixClosed], strings.Join(s.ixWant, " | "), strings.Join(got, " | "))
			}
		}
		s.ixWant = nil
	case "close", "count", "all":
	default:
		s.ixWant = nil
	}
	switch t[0] {
	case "all":
		s.lastAll = nil
		if r[0] == "ok" && len(r) >= 2 {
			s.lastAll = map[int]string{}
			for _, tok := range r[2:] {
				s.lastAll[parseFlat(tok).U] = tok
			}
		}
	case "count", "dump", "control", "fs":
	default:
		s.lastAll = nil
	}
	// bookkeeping for the asynchronous-write oracles
	switch t[0] {
	case "tick":
		s.ticksQuiet++
	case "ins", "many", "bulk", "del", "delall", "sdel", "create", "reopen", "close", "repair":
		s.ticksQuiet = 0
		if e.cfg.Async {
			s.dirty = true
		}
		if t[0] == "close" || t[0] == "reopen" {
			s.dirty = false
		}
	case "flushall", "flushallc", "commit":
		s.dirty = false
	case "rmfile", "corrupt", "truncfile", "addfile", "rmschema", "rmentry", "rmfentry", "stray", "drop":
		s.outside = true
	}
	switch t[0] {
	case "flushallc", "close":
		s.justCommitted = ""
		if r[0] == "ok" {
			s.justCommitted = t[0]
		}
	case "ins", "many", "bulk", "del", "delall", "sdel", "create", "recreate", "recreatebad", "repair", "reopen", "vopen", "commit", "flushall",
		"rmfile", "corrupt", "truncfile", "addfile", "rmschema", "rmentry", "rmfentry", "stray", "drop", "failat", "crashat":
		s.justCommitted = ""
	}
	switch t[0] {
	case "reopen", "close", "vopen":
		s.loaded, s.memStale = false, false
	case "rmschema", "rmentry", "rmfentry":
		s.memStale = true
	case "count", "all", "get", "getu", "exist", "ins", "many", "bulk", "del", "search", "aidx", "schema", "repair", "commit":
		// (a batch without members returns before it looks at the collection)
		if r[0] == "ok" && !(t[0] == "many" && len(t) == 1) && !(t[0] == "bulk" && len(t) <= 2) {
			s.loaded = true
		}
	}
	switch t[0] {
	case "count", "all", "dump":
		if t[0] == "count" {
			s.sweep = s.sweep[:0]
		}
		for _, l := range e.obs {
			if strings.HasPrefix(l, "r ") || strings.HasPrefix(l, "s ") {
				s.sweep = append(s.sweep, l)
			}
		}
		if t[0] == "dump" {
			s.lastDump = append([]string{}, e.obs...)
			cur := strings.Join(s.sweep, "\n")
			// only the results of count and all (the r lines): the dump of the index may legitimately
			// differ in the numbering of object ids after a reload
			var rl []string
			for _, l := range s.sweep {
				if strings.HasPrefix(l, "r ") {
					rl = append(rl, l)
				}
			}
			rs := strings.Join(rl, "\n")
			if s.repairedOK == 2 {
				s.afterRepair = rs
			}
			if s.wantSweep != "" {
				if rs != s.wantSweep && !s.mute && s.variant <= 1 {
					s.fail(e, "C04", "synchronous mode: a new handle opened (without Close) right after Repair + Control succeeded does not show the collection the old handle showed: before [%.200s] after [%.200s]", s.wantSweep, rs)
					s.fail(e, "C11", "the repaired index was not committed: a new handle opened right after Repair + Control succeeded shows [%.200s] instead of [%.200s]", rs, s.wantSweep)
				}
				s.wantSweep = ""
			}
			if p := s.pending; p != nil {
				s.pending = nil
				if cur != p.before {
					switch {
					case p.class == "storage":
						s.pending = &failedWrite{op: p.op, class: "storage-diverged", before: p.before, isUpdate: p.isUpdate}
					default:
						prop := "C06"
						if strings.HasPrefix(p.op, "many") || strings.HasPrefix(p.op, "bulk") {
							prop = "C07"
						}
						if p.class == "invalid" {
							prop = "C15"
						}
						s.fail(e, prop, "write rejected with %q left a trace: sweep before/after differ (op %.80s)", p.class, p.op)
						if prop != "C06" {
							s.fail(e, "C06", "write rejected with %q left a trace: sweep before/after differ (op %.80s)", p.class, p.op)
						}
					}
				}
			}
			s.lastSweep = cur
		}
	case "ins", "many", "bulk":
		if r[0] == "unique" || r[0] == "invalid" || r[0] == "json" || r[0] == "wrongtype" {
			s.rejectedSeen = true
		}
		if r[0] != "ok" && r[0] != "panic" && s.lastSweep != "" && !(t[0] == "bulk" && len(r) > 1 && r[1] != "0") {
			isUpd := t[0] == "ins" && !strings.HasPrefix(t[1], "R0|")
			s.pending = &failedWrite{op: strings.Join(t, " "), class: r[0], before: s.lastSweep, isUpdate: isUpd}
		} else {
			s.pending = nil
		}
		s.lastSweep = ""
	case "control", "schema":
		// the file of an indexed object was removed from outside: Control must say so, in every
		// configuration, whatever else is pending (C11, the "if" of the iff)
		if t[0] == "control" && s.rmIndexed && r[0] == "ok" && !s.faulted && s.crashCtx == "" && !s.mute && s.variant <= 1 {
			s.fail(e, "C11", "Control succeeds although the file of an indexed object was removed from the directory")
		}
		// Repair returned without error (no storage fault, no crash, nothing pending): "afterwards
		// Control succeeds" (C11)
		if t[0] == "control" && s.repairedOK == 1 {
			if r[0] == "ok" {
				s.repairedOK = 2
			} else if !s.faulted && s.crashCtx == "" && !s.mute && s.variant <= 1 && (!e.cfg.Async || !s.dirty) {
				s.fail(e, "C11", "Control reports %q right after a Repair that returned no error", r[0])
			}
		}
		// no false positive: on a database nobody damaged, with nothing pending, Control and the
		// first load succeed (C11: "if and only if")
		if !s.off && !s.faulted && !s.outside && s.crashCtx == "" && !s.mute && s.variant <= 1 && r[0] != "ok" &&
			(!e.cfg.Async || !s.dirty) {
			s.fail(e, "C11", "%s reports %q on a healthy database (no fault, no crash, nothing pending)", t[0], r[0])
		}
		if t[0] == "schema" {
			break
		}
		// IF AND ONLY IF (C11), judged by the harness's own comparison of the two sets: synchronous
		// mode, schema loaded by this handle and not edited from outside since, no storage fault or crash
		if !s.faulted && s.crashCtx == "" && !s.mute && s.variant <= 1 && !e.cfg.Async && s.loaded && !s.memStale && e.ctlDiffer >= 0 {
			if e.ctlDiffer == 1 && r[0] == "ok" {
				s.fail(e, "C11", "Control succeeds although the uuids named by the directory differ from the indexed uuids")
			}
			if e.ctlDiffer == 0 && r[0] == "corrupted" {
				s.fail(e, "C11", "Control reports corruption although the uuids named by the directory are exactly the indexed uuids")
			}
		}
		s.lastCtl = r[0]
		if p := s.pending; p != nil && p.class == "storage-diverged" {
			s.pending = nil
			if r[0] == "ok" {
				kind := "new"
				if p.isUpdate {
					kind = "update"
				}
				_ = kind
				s.fail(e, "C06", "silent divergence after a storage fault [call=%s fault=%s]: the call returned an error, the state changed, Control reports nothing (op %.60s)", s.faultOp, s.lastFault, p.op)
			}
		}
	case "fs":
		s.noGhostFile(e)
		s.flushedInTime(e)
		s.committed(e)
		s.agreement(e)
		s.readsAreFiles(e)
		s.layoutNames(e)
	case "repair":
		if e.repairTouched && !s.faulted && s.crashCtx == "" {
			s.fail(e, "C11", "Repair modified, added or deleted an object file (digest of the directory entries other than schema.json changed)")
		}
		s.lastSweep = ""
		s.pending = nil
	case "del", "delall", "sdel", "reopen", "close", "create", "commit", "flushall", "flushallc", "tick":
		s.lastSweep = ""
		if t[0] != "close" && t[0] != "reopen" {
			s.pending = nil
		}
	}
}

// noGhostFile: a directory listing must not show an object file of an object that was deleted
// (or never accepted): "an object deleted while its write is pending never appears on disk
// afterwards" (C10), and the stored objects are exactly the accepted ones (C01). Only judged when
// no fault, crash or outside modification of the directory happened in the history.
// canonU: "U<n>" of a canonical entry name "U<n><suffix>" (the suffix never starts with a digit)
func canonU(name string) string {
	i := 1
	for i < len(name) && name[i] >= '0' && name[i] <= '9' {
		i++
	}
	return name[:i]
}

func (s *Spec) noGhostFile(e *Exec) {
	if s.off || s.faulted || s.crashCtx != "" || s.mute {
		return
	}
	for _, l := range e.obs {
		f := strings.Fields(l)
		if len(f) >= 3 && f[0] == "s" && f[1] == "file" && strings.HasPrefix(f[2], "U") {
			name := canonU(f[2])
			u, err := strconv.Atoi(name[1:])
			if err != nil {
				continue
			}
			if _, ok := s.live[u]; !ok {
				prop := "C01"
				if e.cfg.Async {
					prop = "C10"
				}
				s.fail(e, prop, "the directory holds a file of object #%d, which was deleted or never accepted", u)
			}
		}
	}
}

// flushedInTime (C10): asynchronous writes, the flusher has been ticked more often than the
// timeout since the last call: "pending writes reach disk without further calls once ... the
// timeout elapses": every accepted object must have its file.
func (s *Spec) flushedInTime(e *Exec) {
	if s.off || s.faulted || s.outside || s.crashCtx != "" || s.mute || !e.cfg.Async || s.variant > 1 {
		return
	}
	if s.ticksQuiet < 1 {
		return
	}
	have := map[int]bool{}
	for _, l := range e.obs {
		f := strings.Fields(l)
		if len(f) >= 3 && f[0] == "s" && f[1] == "file" && strings.HasPrefix(f[2], "U") {
			name := canonU(f[2])
			if u, err := strconv.Atoi(name[1:]); err == nil {
				have[u] = true
			}
		}
	}
	missing, first := 0, 0
	for u := range s.live {
		if !have[u] {
			missing++
			if first == 0 || u < first {
				first = u
			}
		}
	}
	if missing == 0 {
		return
	}
	if s.ticksQuiet >= e.cfg.To+1 {
		s.fail(e, "C10", "asynchronous writes: object #%d was accepted, the flusher was ticked %d times (timeout %d steps) with no call in between, and it has no file", first, s.ticksQuiet, e.cfg.To)
	} else if missing >= e.cfg.Thr && e.cfg.Thr > 0 {
		s.fail(e, "C10", "asynchronous writes: %d accepted objects have no file (threshold %d) although the flusher was ticked %d time(s) since the last call", missing, e.cfg.Thr, s.ticksQuiet)
	}
}

// committed (C10): "Close and FlushAllAndCommit return only after everything accepted is on disk and
// the schema is committed": right after such a call returned without error, whatever the history
// before (also when nothing was pending any more), the directory holds one file per accepted object and
// the id table of schema.json names exactly the accepted objects.
func (s *Spec) committed(e *Exec) {
	if s.off || s.faulted || s.outside || s.crashCtx != "" || s.mute || s.variant > 1 || s.justCommitted == "" {
		return
	}
	have := map[int]bool{}
	named := map[int]bool{}
	sawIds := false
	for _, l := range e.obs {
		f := strings.Fields(l)
		if len(f) >= 3 && f[0] == "s" && f[1] == "file" && strings.HasPrefix(f[2], "U") {
			name := canonU(f[2])
			if u, err := strconv.Atoi(name[1:]); err == nil {
				have[u] = true
			}
		}
		if len(f) >= 2 && f[0] == "s" && f[1] == "sids" {
			sawIds = true
			for _, p := range f[2:] {
				if i := strings.IndexByte(p, ':'); i >= 0 {
					if u, err := strconv.Atoi(p[i+1:]); err == nil {
						named[u] = true
					}
				}
			}
		}
	}
	prop := "C04"
	if e.cfg.Async {
		prop = "C10"
	}
	for u := range s.live {
		if !have[u] {
			s.fail(e, prop, "%s returned without error and accepted object #%d has no file", s.justCommitted, u)
			return
		}
	}
	if !sawIds {
		return
	}
	for u := range s.live {
		if !named[u] {
			s.fail(e, prop, "%s returned without error and the committed schema does not name accepted object #%d (a new handle would find the index corrupted)", s.justCommitted, u)
			return
		}
	}
	for u := range named {
		if _, ok := s.live[u]; !ok {
			s.fail(e, prop, "%s returned without error and the committed schema still names object #%d, which is not in the collection", s.justCommitted, u)
			return
		}
	}
}

// readsAreFiles: synchronous mode, no storage fault or crash in the history: what All just returned for
// an object is the content of its file (whatever happened before: outside additions, Repair, reopen):
// "after Repair ... searches agree with file contents" (C05/C11), "a cached read returns a value equal to
// a file round trip" (C14)
func (s *Spec) readsAreFiles(e *Exec) {
	if s.lastAll == nil || e.cfg.Async || s.mute || s.variant > 1 {
		return
	}
	// after a storage fault or a crash: only once Repair and then Control have succeeded
	// ("after Repair, Control succeeds and searches agree with file contents")
	if (s.faulted || s.crashCtx != "") && s.repairPhase != 2 {
		return
	}
	for _, l := range e.obs {
		f := strings.Fields(l)
		if len(f) >= 4 && f[0] == "s" && f[1] == "file" && strings.HasPrefix(f[2], "U") && f[3] != "BAD" {
			u, err := strconv.Atoi(canonU(f[2])[1:])
			if err != nil {
				continue
			}
			if tok, ok := s.lastAll[u]; ok && tok != f[3] {
				s.fail(e, "C11", "synchronous mode, nothing pending: All returns for object #%d a content that is not the content of its file: read %.120s file %.120s", u, tok, f[3])
				if s.reopened || s.outside || s.crashCtx != "" {
					s.fail(e, "C05", "[after repair or reopen] All returns for object #%d a content that is not the content of its file", u)
				}
				return
			}
		}
	}
}

// layoutNames (C18): every object file is named <uuid><extension>, with an added .gz exactly when the
// collection is compressed (whatever the extension itself ends with)
func (s *Spec) layoutNames(e *Exec) {
	if s.mute || s.variant > 1 || s.outside {
		return
	}
	want := e.cfg.Ext
	if e.diskCompress() {
		want += ".gz"
	}
	for _, l := range e.obs {
		f := strings.Fields(l)
		if len(f) >= 3 && f[0] == "s" && f[1] == "file" && strings.HasPrefix(f[2], "U") {
			u := canonU(f[2])
			if suf := f[2][len(u):]; suf != want {
				s.fail(e, "C18", "the file of object %s is named <uuid>%s, the layout is <uuid>%s (extension %q, compression %v)", u, suf, want, e.cfg.Ext, e.diskCompress())
				return
			}
		}
	}
}

// agreement: last index dump vs the files just listed (sync, nothing pending)
func (s *Spec) agreement(e *Exec) {
	if s.lastDump == nil || e.cfg.Async {
		return
	}
	ids := map[string]string{} // oid -> U<n>
	var ix [][]string
	for _, l := range s.lastDump {
		f := strings.Fields(l)
		if len(f) >= 2 && f[0] == "s" && f[1] == "ids" {
			for _, p := range f[2:] {
				kv := strings.SplitN(p, ":", 2)
				ids[kv[0]] = kv[1]
			}
		}
		if len(f) >= 4 && f[0] == "s" && f[1] == "ix" {
			ix = append(ix, f[2:])
		}
	}
	files := map[string]Flat{}
	nfiles := 0
	bad := false
	for _, l := range e.obs {
		f := strings.Fields(l)
		if len(f) >= 4 && f[0] == "s" && f[1] == "file" {
			nfiles++
			if f[3] == "BAD" {
				bad = true
				continue
			}
			fl := parseFlat(f[3])
			files[strconv.Itoa(fl.U)] = fl
		}
	}
	s.lastDump = nil
	prop := s.prop
	if prop == "" {
		prop = "C11"
	}
	for _, fx := range ix {
		fld, _ := strconv.Atoi(fx[0])
		prev := ""
		for _, en := range fx[2:] {
			i := strings.LastIndexByte(en, ':')
			key, oid := en[:i], en[i+1:]
			if prev != "" {
				if c := keyCmp(prev, key); c < 0 || c == 2 {
					s.fail(e, prop, "index of field %d is not in non-increasing order: %s before %s", fld, prev, key)
				}
			}
			prev = key
			if s.lastCtl == "ok" && !bad && !s.off2() {
				u, ok := ids[oid]
				if !ok {
					s.fail(e, prop, "index of field %d holds object id %s which is not in the id table", fld, oid)
					continue
				}
				if fl, ok := files[u]; ok && fl.K[fld] != key && !(fl.K[fld][0] == 'f' && keyEq(fl.K[fld], key)) {
					ctx := ""
					if s.faulted {
						ctx = fmt.Sprintf(" [call=%s fault=%s]", s.faultOp, s.lastFault)
					}
					s.fail(e, prop, "stale index entry%s: field %d of object #%s is %s in its file but %s in the index, and Control reports nothing", ctx, fld, u, fl.K[fld], key)
				}
			}
		}
	}
}

// off2: agreement between index and files is only demanded right after a successful Control
func (s *Spec) off2() bool { return false }

// onCrash: the process died inside call t. Remember what was acknowledged before it.
func (s *Spec) onCrash(e *Exec, t []string, fresh []int) {
	at := "?"
	for _, l := range e.obs {
		_ = l
	}
	at = s.lastFaultFromTrace(e)
	kind := t[0]
	if t[0] == "ins" {
		kind = "new"
		if !strings.HasPrefix(t[1], "R0|") {
			kind = "update"
		}
	}
	s.crashCtx = fmt.Sprintf("[crash call=%s at=%s]", kind, at)
	s.faulted = true
	s.faultOp, s.lastFault = kind, at
	s.crashTouch = map[int]Flat{}
	s.ackChecked, s.repaired, s.loadFailed = false, false, false
	if !s.off {
		s.preCrash = map[int]Flat{}
		for k, v := range s.live {
			s.preCrash[k] = v
		}
		fi := 0
		for _, tok := range t[1:] {
			if strings.HasPrefix(tok, "R") && strings.Contains(tok, "|") {
				f := parseFlat(tok)
				if f.U == 0 {
					if fi < len(fresh) {
						f.U = fresh[fi]
					}
					fi++
				}
				cf, _ := s.canon(f)
				s.crashTouch[f.U] = cf
			}
		}
		switch t[0] {
		case "del":
			u, _ := strconv.Atoi(t[1])
			s.crashTouch[u] = Flat{U: -1}
		case "delall", "sdel":
			for u := range s.live {
				s.crashTouch[u] = Flat{U: -1}
			}
		}
	} else {
		s.preCrash = nil
	}
	s.off = true
	s.pending = nil
	s.lastSweep = ""
}

func (s *Spec) lastFaultFromTrace(e *Exec) string { return e.lastFaultAt }

// afterCrash: the property's own words, evaluated on the reopened directory
func (s *Spec) afterCrash(e *Exec, t, r []string) {
	switch t[0] {
	case "schema":
		s.loadFailed = r[0] != "ok" && r[0] != "corrupted"
		if s.loadFailed {
			s.fail(e, "C05", "%s the collection cannot be loaded after the crash: %s (schema left unreadable)", s.crashCtx, r[0])
		}
	case "repair":
		s.repaired = r[0] == "ok"
		if r[0] != "ok" && !s.loadFailed {
			s.fail(e, "C05", "%s Repair fails after the crash: %s", s.crashCtx, r[0])
		}
	case "control":
		if s.repaired && r[0] != "ok" {
			s.fail(e, "C05", "%s Control still fails after Repair: %s", s.crashCtx, r[0])
		}
	case "all":
		if s.loadFailed {
			return
		}
		if r[0] != "ok" {
			if s.lastCtl == "ok" {
				s.fail(e, "C05", "%s an object is unreadable after the crash and Control reports nothing (%s)", s.crashCtx, r[0])
			}
			return
		}
		if s.preCrash == nil || s.ackChecked || (s.lastCtl != "ok" && !s.repaired) {
			return
		}
		s.ackChecked = true
		got := map[int]string{}
		for _, tok := range r[2:] {
			got[parseFlat(tok).U] = tok
		}
		for u, want := range s.preCrash {
			nw, touched := s.crashTouch[u]
			g, ok := got[u]
			switch {
			case !touched:
				if !ok || g != want.String() {
					s.fail(e, "C05", "%s object #%d acknowledged before the crash is not reflected after it (got %q)", s.crashCtx, u, g)
				}
			case nw.U == -1:
				if ok && g != want.String() {
					s.fail(e, "C05", "%s object #%d being deleted is neither gone nor intact", s.crashCtx, u)
				}
			default:
				if !ok || (g != want.String() && g != nw.String()) {
					s.fail(e, "C05", "%s object #%d being rewritten holds neither its old nor its new value (got %q)", s.crashCtx, u, g)
				}
			}
		}
		for u, g := range got {
			if _, was := s.preCrash[u]; !was {
				if nw, touched := s.crashTouch[u]; !touched || g != nw.String() {
					s.fail(e, "C05", "%s object #%d appeared out of nowhere after the crash", s.crashCtx, u)
				}
			}
		}
	}
}

// c17: schema guard oracles. Returns true when the op was executed through a changed struct
// (the ordinary oracles do not apply to it).
func (s *Spec) c17(e *Exec, t, r []string) bool {
	switch t[0] {
	case "vopen":
		s.variant, _ = strconv.Atoi(t[1])
		s.results = map[int]*specRes{}
		s.lastSweep, s.pending = "", nil
		return true
	case "dirhash":
		h := ""
		for _, l := range e.obs {
			if strings.HasPrefix(l, "# hash ") {
				h = l[7:]
			}
		}
		if s.lastHash != "" && s.hashMustHold && h != s.lastHash {
			s.fail(e, "C17", "files changed although every operation in between had to be refused (digest %s -> %s)", s.lastHash, h)
		}
		s.lastHash, s.hashMustHold = h, true
		return true
	case "create":
		// a refused re-creation must not touch the files; an accepted one may rewrite schema.json
		if r[0] == "ok" {
			s.hashMustHold = false
			if len(t) > 1 && (strings.HasPrefix(t[1], "cache=") || strings.HasPrefix(t[1], "async=")) {
				s.switched = true
			}
		}
		if len(t) > 1 && (strings.HasPrefix(t[1], "ext=") || strings.HasPrefix(t[1], "cons=")) && s.variant <= 1 && !s.outside {
			want := "fielddesc"
			if strings.HasPrefix(t[1], "ext=") {
				want = "extension"
			}
			if r[0] != want {
				s.fail(e, "C17", "re-creation with %s: got %s want %s", t[1], r[0], want)
			}
		}
	}
	if s.variant >= 2 && s.variant <= 4 {
		switch t[0] {
		case "fs", "close", "control", "tick", "reopen", "flushall":
			// calls that take no object, or have nothing to do: no schema is looked up
		default:
			if r[0] != "structure" {
				s.fail(e, "C17", "operation %q through a struct whose shape changed (variant %d): got %s, want the structure-changed error", t[0], s.variant, r[0])
			}
		}
		return true
	}
	switch t[0] {
	case "ins", "many", "bulk", "del", "delall", "sdel", "commit", "flushall", "flushallc", "repair", "close", "tick", "reopen":
		s.hashMustHold = false
	}
	return false
}
