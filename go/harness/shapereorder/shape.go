// VARIANT reorder of package shape: same package name and type name (so the same stored type string
// "shape.Rec" and the same directory), one change of structure. Used by C17.
// Package shape declares the object types the harness stores through sod's public API.
// The Coq model sees a Rec as a flat list of 18 scalar keys (Paths order) plus an opaque
// "rest" token (nil-ness of N / N.D and the non-scalar payload Sl, M, P).
package shape

import (
	"errors"
	"time"

	"github.com/0xrawsec/sod"
)

type Deep struct {
	Z float64
	W string
}
type Nested struct {
	X int32
	Y string
	D *Deep
}
type Inner struct {
	P int
	Q string
}
type Emb struct{ E uint16 }

type Rec struct {
	sod.Item
	Emb
	B  int8
	A  int64
	U  uint64
	V  uint32
	F  float64
	G  float32
	K  string
	S  string
	T  time.Time
	N  *Nested
	NV Inner
	TM int
	VM int
	Sl []string
	M  map[string]int
	P  *int
}


var ErrRule = errors.New("rule")

// Transform / Validate are driven by the TM / VM fields (mirrored by coq/Model/Instance.v)
func (r *Rec) Transform() {
	switch r.TM {
	case 1:
		r.S += "x"
	case 2:
		r.A ^= 1
	case 3:
		r.K = r.K + "#" + r.S
	}
}

func (r *Rec) Validate() error {
	switch r.VM {
	case 1:
		if len(r.S)%2 == 1 {
			return ErrRule
		}
	case 2:
		if r.A&1 == 1 {
			return ErrRule
		}
	case 3:
		return ErrRule
	}
	return nil
}

