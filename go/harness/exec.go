package main

// Executor: runs one history (a list of op lines) against the real sod built from the
// rewritten scratch copy of /repo, through the PUBLIC API only, and writes for every op
//   op <line>          the operation (echoed)
//   o <...>            oracle inputs the model needs (fresh uuids, repair order, ...)
//   r <...>            the implementation's projected result
//   s <...>            state lines for dump / fs observations
// The OCaml driver (extracted Coq model) consumes op+o lines and prints its own r/s lines.

import (
	"bufio"
	"compress/gzip"
	"crypto/sha256"
	"encoding/hex"
	"encoding/json"
	"errors"
	"fmt"
	"io"
	"io/fs"
	"math/rand"
	"os"
	"os/exec"
	"path/filepath"
	"regexp"
	"regexp/syntax"
	"runtime/debug"
	"sort"
	"strconv"
	"strings"
	"time"

	"github.com/0xrawsec/sod"
	"github.com/0xrawsec/sod/vshim"

	"verif/harness/shape"
)

type Cfg struct {
	Cache, Async, Compress, Lower bool
	AsyncStruct                   bool // async off is expressed by a non-nil Async{Enable: false} (not part of the model's view)
	Thr, To                       int  // threshold, timeout in 100ms steps
	Ext                           string
	Cons                          [NF]string // 4 flags each: index unique upper lower
}

func b2s(b bool) string {
	if b {
		return "1"
	}
	return "0"
}

func (c Cfg) Lines() []string {
	return []string{
		fmt.Sprintf("cfg cache=%s async=%s thr=%d to=%d compress=%s ext=%s lower=%s",
			b2s(c.Cache), b2s(c.Async), c.Thr, c.To, b2s(c.Compress), stok(c.Ext), b2s(c.Lower)),
		"fields " + strings.Join(c.Cons[:], " "),
	}
}

func parseKV(toks []string) map[string]string {
	m := map[string]string{}
	for _, t := range toks {
		if i := strings.IndexByte(t, '='); i > 0 {
			m[t[:i]] = t[i+1:]
		}
	}
	return m
}

func (c *Cfg) applyKV(m map[string]string) {
	for k, v := range m {
		switch k {
		case "cache":
			c.Cache = v == "1"
		case "async":
			c.Async = v == "1"
		case "astruct":
			c.AsyncStruct = v == "1"
		case "compress":
			c.Compress = v == "1"
		case "lower":
			c.Lower = v == "1"
		case "thr":
			c.Thr, _ = strconv.Atoi(v)
		case "to":
			c.To, _ = strconv.Atoi(v)
		case "ext":
			c.Ext = sdecode(v)
		}
	}
}

func (c Cfg) indexed(f int) bool {
	return f >= 0 && f < NF && (c.Cons[f][0] == '1' || c.Cons[f][1] == '1')
}

type srch struct {
	s       *sod.Search
	det     bool // result order is a function of the history (all searched fields indexed)
	limited bool // a limited Collect was issued on it
	rev     bool // Reverse() was called on it (sticky)
}

type Exec struct {
	root          string
	db            *sod.DB
	cfg           Cfg
	uu            []string
	un            map[string]int
	searches      map[int]*srch
	w             *bufio.Writer
	rng           *rand.Rand
	virtual       bool
	cacheUnknown  bool // see Step
	ctlDiffer     int  // before the last Control: uuids named by the directory vs uuids of schema.json: 1 differ, 0 agree, -1 unknown
	otherN        int  // objects stored at creation in the second collection (shape.Other) of the handle; 0: unknown
	otherU        [2]string
	repairTouched bool   // the last Repair changed, added or removed an object file
	lastColl      []Flat // what the last Collect / One returned, in the order it was returned
	lastRev       bool
	failNext      int      // arm a storage fault at this FS op index for the next op (-1: none)
	crash         bool     // the armed fault is a crash
	obs           []string // r/s lines of the current op (also kept for the direct oracles)
	spec          *Spec
	strs          map[string]bool // every string seen in this history (case / regex oracle tables)
	lastFaultAt   string
	typ           Typ
}

func NewExec(root string, cfg Cfg, w *bufio.Writer, seed int64) *Exec {
	sod.LowercaseNames = cfg.Lower
	e := &Exec{root: root, cfg: cfg, uu: []string{""}, un: map[string]int{}, searches: map[int]*srch{}, w: w,
		rng: rand.New(rand.NewSource(seed)), failNext: -1}
	e.db = sod.Open(root)
	e.spec = NewSpec(cfg)
	e.typ = types[1]
	return e
}

func (e *Exec) unum(s string) int {
	if s == "" {
		return 0
	}
	if n, ok := e.un[s]; ok {
		return n
	}
	e.uu = append(e.uu, s)
	e.un[s] = len(e.uu) - 1
	return len(e.uu) - 1
}

// ustr: uuid string of number n; unseen numbers get a synthetic (never stored) uuid
func (e *Exec) ustr(n int) string {
	if n == 0 {
		return ""
	}
	for len(e.uu) <= n {
		s := fmt.Sprintf("%08x-%04x-4%03x-a%03x-%012x", e.rng.Uint32(), e.rng.Intn(1<<16), e.rng.Intn(1<<12), e.rng.Intn(1<<12), e.rng.Int63n(1<<48))
		if e.rng.Intn(3) == 0 {
			// identifiers chosen by the application (Object.Initialize) may be in upper case
			s = strings.ToUpper(s)
		}
		e.uu = append(e.uu, s)
		e.un[s] = len(e.uu) - 1
	}
	return e.uu[n]
}

func cls(err error) string {
	var se *syntax.Error
	var j1 *json.SyntaxError
	var j2 *json.UnmarshalTypeError
	var j3 *json.UnsupportedValueError
	var j4 *json.MarshalerError
	switch {
	case err == nil:
		return "ok"
	case errors.Is(err, sod.ErrConstraintUnique):
		return "unique"
	case errors.Is(err, sod.ErrInvalidObject):
		return "invalid"
	case errors.Is(err, sod.ErrWrongObjectType):
		return "wrongtype"
	case errors.Is(err, sod.ErrCasting):
		return "casting"
	case errors.Is(err, sod.ErrFieldDescModif):
		return "fielddesc"
	case errors.Is(err, sod.ErrStructureChanged):
		return "structure"
	case errors.Is(err, sod.ErrUnkownField):
		return "unknownfield"
	case errors.Is(err, sod.ErrUnkownSearchOperator):
		return "unknownop"
	case errors.Is(err, sod.ErrUnknownKeyType):
		return "unknownkey"
	case errors.Is(err, sod.ErrNoObjectFound):
		return "noobject"
	case errors.Is(err, sod.ErrUnexpectedNumberOfResults):
		return "unexpectedn"
	case errors.Is(err, sod.ErrIndexCorrupted):
		return "corrupted"
	case errors.Is(err, sod.ErrExtensionMismatch):
		return "extension"
	case errors.Is(err, sod.ErrFieldNotIndexed), errors.Is(err, sod.ErrUnindexedField):
		return "notindexed"
	case errors.Is(err, sod.ErrBadSchema):
		return "badschema"
	case errors.Is(err, sod.ErrMissingObjIndex):
		return "missingindex"
	case vshim.IsFault(err):
		return "storage"
	case errors.Is(err, fs.ErrNotExist):
		return "notfound"
	case errors.As(err, &se):
		return "badpattern"
	case errors.As(err, &j1), errors.As(err, &j2), errors.As(err, &j3), errors.As(err, &j4),
		errors.Is(err, io.ErrUnexpectedEOF), errors.Is(err, io.EOF), errors.Is(err, gzip.ErrHeader), errors.Is(err, gzip.ErrChecksum):
		return "json"
	case strings.Contains(err.Error(), "is not ordered"), strings.Contains(err.Error(), "must have the same size"):
		return "inconsistent"
	}
	return "other"
}

// rd: read errors of enumerating reads are one class (which object fails first depends on map order)
func rd(c string) string {
	switch c {
	case "notfound", "json", "other":
		return "readerr"
	}
	return c
}

func (e *Exec) emit(format string, a ...interface{}) {
	l := fmt.Sprintf(format, a...)
	e.obs = append(e.obs, l)
	fmt.Fprintln(e.w, l)
}

// unindexableAfterRepair: uuid numbers of the object files that are not indexed (after a Repair that
// returned an error) and that Repair could not have indexed: unreadable, or holding a value of a unique
// field that an indexed object (another uuid) holds. Computed from the directory and the live index.
func (e *Exec) unindexableAfterRepair() []int {
	var s *sod.Schema
	var err error
	if safe(func() { s, err = e.db.Schema(e.of()) }) != nil || s == nil || (err != nil && !sod.IsIndexCorrupted(err)) || s.ObjectIndex == nil {
		return nil
	}
	indexed := map[string]bool{}
	e.db.RLock()
	for _, u := range s.ObjectIndex.ObjectIds {
		indexed[u] = true
	}
	e.db.RUnlock()
	dir := e.colDir()
	ents, _ := os.ReadDir(dir)
	type cand struct {
		u   int
		bad bool
		f   Flat
	}
	var cands []cand
	var held []Flat
	for _, d := range ents {
		name := d.Name()
		pre, _ := uuidPart(name)
		if name == sod.SchemaFilename || !uuidNameRe.MatchString(pre) {
			continue
		}
		data, rerr := readMaybeGz(filepath.Join(dir, name), e.diskCompress())
		var r shape.Rec
		if rerr == nil {
			rerr = json.NewDecoder(strings.NewReader(string(data))).Decode(&r)
		}
		if indexed[pre] {
			if rerr == nil {
				held = append(held, recToFlat(&r, e.unum(pre)))
			}
			continue
		}
		cands = append(cands, cand{u: e.unum(pre), bad: rerr != nil || d.IsDir(), f: recToFlat(&r, e.unum(pre))})
	}
	var out []int
	for _, c := range cands {
		no := c.bad
		for i := 0; i < NF && !no; i++ {
			if e.cfg.Cons[i][1] != '1' {
				continue
			}
			for _, h := range held {
				if h.U != c.f.U && h.K[i] == c.f.K[i] {
					no = true
					break
				}
			}
		}
		if no {
			out = append(out, c.u)
		}
	}
	sort.Ints(out)
	return out
}

var uuidNameRe = regexp.MustCompile(`^(?i:[0-9a-f]{8}-[0-9a-f]{4}-[0-9a-f]{4}-[0-9a-f]{4}-[0-9a-f]{12})$`)

// setsDiffer: the harness's own reading of "the set of indexed objects differs from the set of
// object files": entries of the collection directory whose name up to the first dot is a uuid
// (any letter case) against the values of index.object-ids in schema.json (what a handle in
// synchronous mode has in memory after any completed call)
// setsDiffer: the uuids named by the directory against the uuids of the LIVE index of the handle when it has one
// (what Control compares; after a Repair that failed part-way the live index is ahead of schema.json), else
// against schema.json
func (e *Exec) setsDiffer() int {
	if e.spec.loaded {
		var s *sod.Schema
		var err error
		if safe(func() { s, err = e.db.Schema(e.of()) }) == nil && s != nil && s.ObjectIndex != nil && (err == nil || sod.IsIndexCorrupted(err)) {
			ents, rerr := os.ReadDir(e.colDir())
			if rerr != nil {
				return -1
			}
			onDisk := map[string]bool{}
			for _, d := range ents {
				name, _ := uuidPart(d.Name())
				if uuidNameRe.MatchString(name) {
					onDisk[name] = true
				}
			}
			e.db.RLock()
			defer e.db.RUnlock()
			if len(s.ObjectIndex.ObjectIds) != len(onDisk) {
				return 1
			}
			for _, u := range s.ObjectIndex.ObjectIds {
				if !onDisk[u] {
					return 1
				}
			}
			return 0
		}
	}
	return dirSetsDiffer(e.colDir())
}

// dirSetsDiffer: 1 when the uuids named by the entries of a collection directory differ from the uuids
// of the id table of its schema.json, 0 when they are the same set, -1 when that cannot be told
func dirSetsDiffer(dir string) int {
	ents, err := os.ReadDir(dir)
	if err != nil {
		return -1
	}
	onDisk := map[string]bool{}
	for _, d := range ents {
		name, _ := uuidPart(d.Name())
		if uuidNameRe.MatchString(name) {
			onDisk[name] = true
		}
	}
	data, err := os.ReadFile(filepath.Join(dir, sod.SchemaFilename))
	if err != nil {
		return -1
	}
	var top struct {
		Index struct {
			Ids map[string]string `json:"object-ids"`
		} `json:"index"`
	}
	if json.Unmarshal(data, &top) != nil {
		return -1
	}
	indexed := map[string]bool{}
	for _, u := range top.Index.Ids {
		indexed[u] = true
	}
	if len(indexed) != len(onDisk) {
		return 1
	}
	for u := range indexed {
		if !onDisk[u] {
			return 1
		}
	}
	return 0
}

// objFilesHash: digest of names and bytes of every entry of the collection directory but schema.json
func (e *Exec) objFilesHash() string {
	ents, err := os.ReadDir(e.colDir())
	if err != nil {
		return "-"
	}
	h := sha256.New()
	for _, d := range ents {
		if d.Name() == sod.SchemaFilename {
			continue
		}
		fmt.Fprintf(h, "%s|%v|", d.Name(), d.IsDir())
		if !d.IsDir() {
			b, _ := os.ReadFile(filepath.Join(e.colDir(), d.Name()))
			h.Write(b)
		}
	}
	return hex.EncodeToString(h.Sum(nil))
}

// safe runs f, converting a panic into the class "panic"
var panStack string

func safe(f func()) (p interface{}) {
	defer func() {
		p = recover()
		if p != nil {
			panStack = string(debug.Stack())
		}
	}()
	f()
	return nil
}

func (e *Exec) rec(f Flat) sod.Object {
	r := flatToRec(f)
	if f.U != 0 {
		r.Initialize(e.ustr(f.U))
	}
	return e.typ.fromRec(r)
}

// scribble overwrites everything an object holds (but its uuid), through every pointer, slice and map
// it reaches: the harness does it to every object it handed to a write call once the call has returned,
// and to every object a read returned once it has been recorded. A library that keeps a reference
// instead of a copy (cache, pending writes) then shows wrong values in EVERY profile, not only in C14's
// probes: "mutating an object after storing it, or an object returned by a read, never changes what
// later reads return".
func scribble(o sod.Object) {
	r, ok := o.(*shape.Rec)
	if !ok || r == nil {
		return
	}
	r.A, r.B, r.U, r.V, r.F, r.G = -424242, 42, 424242, 4242, -42.5, -4.25
	r.S, r.K = "SCRIBBLED-s", "scribbled-K"
	r.T = time.Unix(42, 42)
	if r.N != nil {
		r.N.X, r.N.Y = 4242, "scribbled-n"
		if r.N.D != nil {
			r.N.D.Z, r.N.D.W = -4.5, "scribbled-d"
		}
	}
	r.NV.P, r.NV.Q = 4242, "scribbled-q"
	r.Emb.E = 4242
	for i := range r.Sl {
		r.Sl[i] = "scribbled"
	}
	for k := range r.M {
		r.M[k] = 424242
	}
	if r.M != nil {
		r.M["scribbled"] = 1
	}
	if r.P != nil {
		*r.P = 424242
	}
}

func (e *Exec) flat(o sod.Object) Flat {
	r := toRec(o)
	return recToFlat(r, e.unum(r.UUID()))
}

// of: a fresh object of the handle's current Go type
// of: the object handed to calls that only want to know the collection (Count, All, Search, Repair,
// FlushAll ...): half of the time it HOLDS DATA (no uuid): a type witness may be any object of the type
func (e *Exec) of() sod.Object {
	if e.rng.Intn(2) == 0 && e.typ.name == "shape.Rec" {
		r := flatToRec(genRec(e.rng, e.cfg))
		return r
	}
	return e.typ.mk()
}

// ofU: the object handed to calls that identify an object by its uuid (Get, Exist, Delete ...): half of the
// time it HOLDS DATA (an older copy being refreshed): what a read returns is what is stored, nothing else
func (e *Exec) ofU(u int) sod.Object {
	var o sod.Object = e.typ.mk()
	if e.rng.Intn(2) == 0 && e.typ.name == "shape.Rec" {
		o = flatToRec(genRec(e.rng, e.cfg))
	}
	o.Initialize(e.ustr(u))
	return o
}

func (e *Exec) schemaFor() sod.Schema {
	return e.schemaWith(e.cfg)
}

func (e *Exec) schemaWith(c Cfg) sod.Schema {
	fds := sod.FieldDescriptors(&shape.Rec{})
	for i, p := range shape.Paths {
		cs := c.Cons[i]
		fds.Constraint(p, sod.Constraints{Index: cs[0] == '1', Unique: cs[1] == '1', Upper: cs[2] == '1', Lower: cs[3] == '1'})
	}
	s := sod.NewCustomSchema(fds, c.Ext)
	s.Cache = c.Cache
	s.Compress = c.Compress
	if c.Async {
		s.Asynchrone(c.Thr, time.Duration(c.To)*100*time.Millisecond)
	} else if c.AsyncStruct {
		// asynchronous writes disabled by a non-nil settings value (Enable: false)
		s.AsyncWrites = &sod.Async{Enable: false, Threshold: 1 + c.Thr, Timeout: time.Duration(1+c.To) * 100 * time.Millisecond}
	}
	return s
}

var opNames = map[string]string{"eq": "=", "ne": "!=", "lt": "<", "le": "<=", "gt": ">", "ge": ">=", "rx": "~=", "bad": "%%"}

func fieldName(f int) string {
	switch {
	case f >= 0 && f < NF:
		return shape.Paths[f]
	case f == 98:
		return "A.B" // path through a scalar
	case f == 97:
		return "Sl" // existing, non-scalar field
	}
	return "Nope"
}

// quiesce waits until every flusher goroutine is parked in the virtual clock
func (e *Exec) quiesce() {
	if !e.virtual {
		return
	}
	if !vshim.Quiesce("startAsyncWritesRoutine", 5*time.Second) {
		e.emit("r hang quiesce")
	}
}

// oracles: the images of every new string of the op under Go's ToUpper/ToLower, and the
// verdicts of Go's regexp for every (pattern, known string) pair, as "o" lines for the model
func (e *Exec) oracles(t []string) {
	if e.strs == nil {
		e.strs = map[string]bool{}
	}
	var news []string
	add := func(s string) {
		if !e.strs[s] {
			e.strs[s] = true
			news = append(news, s)
		}
	}
	addAll := func(s string) {
		add(s)
		u, l := strings.ToUpper(s), strings.ToLower(s)
		add(u)
		add(l)
		add(strings.ToLower(u))
		add(strings.ToUpper(l))
	}
	for _, tok := range t[1:] {
		if strings.HasPrefix(tok, "R") && strings.Contains(tok, "|") {
			f := parseFlat(tok)
			for _, k := range f.K {
				if k[0] == 's' {
					addAll(sdecode(k))
				}
			}
			if f.K[shape.FTM] != "i0" && !strings.Contains(tok, "fnan") {
				r := flatToRec(f)
				r.Transform()
				addAll(r.S)
				addAll(r.K)
			}
		} else if len(tok) > 0 && tok[0] == 's' && t[0] != "stray" && t[0] != "schema" {
			if _, err := hex.DecodeString(tok[1:]); err == nil {
				addAll(sdecode(tok))
			}
		}
	}
	for i := 0; i < len(news); i++ {
		s := news[i]
		e.emit("o case %s %s %s", stok(s), stok(strings.ToUpper(s)), stok(strings.ToLower(s)))
	}
	// regex tables: only for the pattern of this op, against every string known so far
	if t[0] == "search" || t[0] == "and" || t[0] == "or" {
		i := 2
		if t[0] != "search" {
			i = 3
		}
		if t[i+1] == "rx" && t[i+2][0] == 's' {
			p := sdecode(t[i+2])
			all := make([]string, 0, len(e.strs))
			for s := range e.strs {
				all = append(all, s)
			}
			sort.Strings(all)
			done := map[string]bool{}
			for _, pat := range []string{p, strings.ToUpper(p), strings.ToLower(p), strings.ToLower(strings.ToUpper(p))} {
				if done[pat] {
					continue
				}
				done[pat] = true
				re, err := regexp.Compile(pat)
				if err != nil {
					e.emit("o rx %s bad", stok(pat))
					continue
				}
				var ms []string
				for _, s := range all {
					if re.MatchString(s) {
						ms = append(ms, stok(s))
					}
				}
				e.emit("o rx %s ok %s", stok(pat), strings.Join(ms, " "))
			}
		}
	}
}

// Step executes one op line
// pairOther: in a pair run (C12) the OTHER configuration the same history is replayed under: the order of a
// result is a function of the history only when the searched field is indexed under both
var pairOther *Cfg

func (e *Exec) Step(line string) {
	e.obs = e.obs[:0]
	t := strings.Fields(line)
	if len(t) == 0 {
		fmt.Fprintln(e.w, "op "+line)
		return
	}
	if t[len(t)-1] == "@mode" {
		// generated before the search existed: the comparison mode is decided now
		sid, _ := strconv.Atoi(t[1])
		m := 2
		if _, ok := e.searches[sid]; ok {
			if t[0] == "one" {
				m = 0
				if !e.searches[sid].det {
					m = 2
				}
			} else {
				lim, _ := strconv.ParseInt(t[2], 10, 64)
				m = e.collectMode(sid, lim)
			}
			if m != 0 && e.stale(sid) {
				t = []string{"len", t[1]}
			}
		}
		if t[0] != "len" {
			t[len(t)-1] = strconv.Itoa(m)
		}
		line = strings.Join(t, " ")
	}
	fmt.Fprintln(e.w, "op "+line)
	e.w.Flush() // (if the process dies during this call, the history so far is the failing input)
	e.oracles(t)
	armed := e.failNext >= 0
	if armed {
		if e.crash {
			vshim.ArmCrash(e.failNext)
		} else {
			vshim.ArmFault(e.failNext, true)
		}
	}
	var pan interface{}
	done := make(chan struct{})
	go func() {
		defer close(done)
		pan = safe(func() { e.step(t) })
	}()
	select {
	case <-done:
	case <-time.After(20 * time.Second):
		e.emit("r hang")
		e.w.Flush()
		fmt.Fprintln(os.Stderr, "HANG in op: "+line)
		os.Exit(3)
	}
	// a read of SEVERAL objects that failed on one of them, with the cache on: which objects it read (and cached)
	// before the failing one is Go map order: what the cache holds is no longer a function of the history, and
	// would show if a cached object's file were later removed or damaged from outside
	if (e.cfg.Cache || e.cfg.Async) && len(e.obs) > 0 && strings.HasPrefix(e.obs[0], "r readerr") {
		switch t[0] {
		case "all", "collect", "one", "search", "and", "or", "sdel", "delall", "repair":
			e.cacheUnknown = true
		}
	}
	crashed := false
	if pan != nil {
		if pan == interface{}(vshim.Crash) || vshim.IsDead() { // (a deferred call may panic again while unwinding)
			crashed = true
			// the process died: drop whatever the call had printed, the handle is gone
			e.obs = e.obs[:0]
			e.emit("r crash")
			e.db = sod.Open(e.root)
			e.searches = map[int]*srch{}
		} else {
			e.emit("r panic")
			e.emit("# panic: %v", strings.ReplaceAll(fmt.Sprint(pan), "\n", " "))
			if os.Getenv("HZ_STACK") != "" {
				fmt.Fprintln(os.Stderr, panStack)
			}
		}
	}
	if armed {
		fired, seen := vshim.DisarmFault()
		what := "-"
		if fired {
			lf := vshim.LastFault()
			i := strings.IndexByte(lf, ':')
			what = lf[:i] + ":object"
			if strings.HasSuffix(lf, sod.SchemaFilename) {
				what = lf[:i] + ":schema"
			} else if lf[:i] == "mkdirall" || lf[:i] == "removeall" {
				what = lf[:i] + ":dir"
			}
		}
		e.lastFaultAt = what
		e.emit("o fault fired=%s seen=%d at=%s", b2s(fired), seen, what)
		if e.crash && !crashed {
			// the call performed fewer mutations than the crash index: it completed
			e.emit("o nocrash")
		}
		e.failNext = -1
		e.crash = false
	}
	e.quiesce()
	e.spec.Check(e, t)
}

func (e *Exec) step(t []string) {
	db := e.db
	switch t[0] {
	case "create":
		c := e.cfg
		c.applyKV(parseKV(t[1:]))
		if v, ok := parseKV(t[1:])["cons"]; ok { // cons=<field>:<flags> override (C17 re-create)
			p := strings.Split(v, ":")
			i, _ := strconv.Atoi(p[0])
			c.Cons[i] = p[1]
		}
		err := db.Create(e.of(), e.schemaWith(c))
		if err == nil {
			e.cfg.Cache, e.cfg.Async, e.cfg.Thr, e.cfg.To, e.cfg.AsyncStruct = c.Cache, c.Async, c.Thr, c.To, c.AsyncStruct
			err2 := db.Create(&shape.Other{}, sod.DefaultSchema)
			if err2 != nil {
				e.emit("# create other: %v", err2)
			} else if n, cerr := db.Count(&shape.Other{}); cerr == nil && n == 0 && e.failNext < 0 {
				// a second collection lives in the same handle, with two objects of its own: nothing done to
				// the first collection may ever change it
				o1, o2 := &shape.Other{A: 1}, &shape.Other{A: 2}
				if _, ierr := db.InsertOrUpdateMany(o1, o2); ierr == nil {
					e.otherN = 2
					e.otherU = [2]string{o1.UUID(), o2.UUID()}
				}
			}
		}
		e.emit("r %s", cls(err))
	case "ins":
		f := parseFlat(t[1])
		r := e.rec(f)
		defer func() { // also when the call dies in a simulated crash
			if f.U == 0 {
				e.emit("o fresh %d", e.unum(r.UUID()))
			}
		}()
		err := db.InsertOrUpdate(r)
		defer e.emit("r %s", cls(err))
		if err != nil && f.U == 0 && e.failNext < 0 {
			// a refused NEW object: Exist must not see it (C06, also while writes are asynchronous)
			func() {
				defer func() { recover() }()
				if ok, xerr := db.Exist(r); xerr == nil {
					defer e.emit("o existafter %s", b2s(ok))
				}
			}()
		}
		scribble(r)
	case "many", "bulk":
		i := 1
		csize := 0
		if t[0] == "bulk" {
			csize, _ = strconv.Atoi(t[1])
			i = 2
		}
		var objs []sod.Object
		var flats []Flat
		for ; i < len(t); i++ {
			if t[i] == "OTHER" {
				objs = append(objs, &shape.Other{A: 1})
				flats = append(flats, Flat{U: -1})
				continue
			}
			f := parseFlat(t[i])
			objs = append(objs, e.rec(f))
			flats = append(flats, f)
		}
		var n int
		var err error
		defer func() {
			fr := []string{}
			for j, o := range objs {
				if flats[j].U == 0 {
					fr = append(fr, strconv.Itoa(e.unum(o.UUID())))
				}
			}
			e.emit("o fresh %s", strings.Join(fr, " "))
		}()
		if t[0] == "many" {
			n, err = db.InsertOrUpdateMany(objs...)
		} else {
			ch := make(chan sod.Object)
			go func() {
				defer close(ch)
				for _, o := range objs {
					ch <- o
				}
			}()
			n, err = db.InsertOrUpdateBulk(ch, csize)
			for range ch { // drain if the call stopped early
			}
		}
		defer func() { e.emit("r %s %d", cls(err), n) }()
		for _, o := range objs {
			scribble(o)
		}
	case "del":
		u, _ := strconv.Atoi(t[1])
		e.emit("r %s", cls(db.Delete(e.ofU(u))))
	case "delall":
		// the order in which DeleteAll removes files is Go map order: taken from the FS log
		vshim.StartRecording()
		defer func() {
			var us []string
			for _, ev := range vshim.StopRecording() {
				if ev.Kind == "remove" {
					name, _ := uuidPart(filepath.Base(ev.Path))
					us = append(us, strconv.Itoa(e.unum(name)))
				}
			}
			e.emit("o order %s", strings.Join(us, " "))
		}()
		err := db.DeleteAll(e.of())
		defer e.emit("r %s", cls(err))
	case "get", "getu":
		u, _ := strconv.Atoi(t[1])
		var o sod.Object
		var err error
		if t[0] == "get" {
			o, err = db.Get(e.ofU(u))
		} else {
			o, err = db.GetByUUID(e.of(), e.ustr(u))
		}
		if err != nil {
			e.emit("r %s", cls(err))
		} else {
			e.emit("r ok %s", e.flat(o))
			scribble(o)
		}
	case "exist":
		u, _ := strconv.Atoi(t[1])
		ok, err := db.Exist(e.ofU(u))
		e.emit("r %s %s", cls(err), b2s(ok))
	case "count":
		n, err := db.Count(e.of())
		e.emit("r %s %d", cls(err), n)
		if e.otherN > 0 && e.failNext < 0 {
			// (the harness's own mixed batches may add objects to it; the two it started with stay as they are)
			if n2, err2 := db.Count(&shape.Other{}); err2 == nil {
				if n2 < e.otherN {
					e.emit("! C01 the OTHER collection of the handle now holds %d objects, it held %d: calls on one collection changed another", n2, e.otherN)
				}
				for i, u := range e.otherU {
					if o, gerr := db.GetByUUID(&shape.Other{}, u); gerr != nil || o.(*shape.Other).A != i+1 {
						e.emit("! C01 object %d of the OTHER collection of the handle cannot be read back as it was stored (%v)", i+1, gerr)
					}
				}
			}
		}
	case "all":
		var objs []sod.Object
		var err error
		if len(t) > 1 && t[1] == "assign" && e.typ.name == "shape.Rec" {
			var tgt []*shape.Rec
			err = db.AssignAll(&shape.Rec{}, &tgt)
			for _, o := range tgt {
				objs = append(objs, o)
			}
		} else {
			objs, err = db.All(e.of())
		}
		fl := make([]Flat, 0, len(objs))
		for _, o := range objs {
			fl = append(fl, e.flat(o))
			scribble(o)
		}
		sort.Slice(fl, func(i, j int) bool { return fl[i].U < fl[j].U })
		ss := make([]string, len(fl))
		for i := range fl {
			ss[i] = fl[i].String()
		}
		if err != nil {
			e.emit("r %s", rd(cls(err)))
		} else {
			e.emit("r ok %d %s", len(fl), strings.Join(ss, " "))
		}
	case "search", "and", "or":
		// search <sid> <field> <op> <key> [native] | and/or <sid> <old> <field> <op> <key> [native]
		sid, _ := strconv.Atoi(t[1])
		i := 2
		var old *srch
		if t[0] != "search" {
			o, _ := strconv.Atoi(t[2])
			old = e.searches[o]
			i = 3
		}
		fld, _ := strconv.Atoi(t[i])
		op := opNames[t[i+1]]
		native := len(t) > i+3 && t[i+3] == "native"
		val := keyValue(t[i+2], fld, native)
		var s *sod.Search
		det := e.cfg.indexed(fld) && (pairOther == nil || pairOther.indexed(fld))
		switch t[0] {
		case "search":
			s = db.Search(e.of(), fieldName(fld), op, val)
		case "and":
			// (one time out of three through Search.Operation and one of its spellings)
			if e.rng.Intn(3) == 0 {
				s = old.s.Operation([]string{"and", "&&", "AND", "And"}[e.rng.Intn(4)], fieldName(fld), op, val)
			} else {
				s = old.s.And(fieldName(fld), op, val)
			}
			det = det && old.det
		case "or":
			if e.rng.Intn(3) == 0 {
				s = old.s.Operation([]string{"or", "||", "OR", "Or"}[e.rng.Intn(4)], fieldName(fld), op, val)
			} else {
				s = old.s.Or(fieldName(fld), op, val)
			}
			det = det && old.det
		}
		e.searches[sid] = &srch{s: s, det: det}
		if s.Err() != nil {
			e.emit("r %s 0", rd(cls(s.Err()))) // the length of a failed search is not an observable
		} else {
			e.emit("r ok %d", s.Len())
		}
	case "len":
		sid, _ := strconv.Atoi(t[1])
		if e.searches[sid].s.Err() != nil {
			// (the length of a failed search is not an observable: see the driver)
			e.searches[sid].s.Len()
			e.emit("r ok *")
		} else {
			e.emit("r ok %d", e.searches[sid].s.Len())
		}
	case "collect", "one":
		// collect <sid> <limit|-1> <rev> <mode>   mode: 0 exact order, 1 sorted, 2 count only
		sid, _ := strconv.Atoi(t[1])
		s := e.searches[sid]
		var objs []sod.Object
		var err error
		mode := 0
		if t[0] == "one" {
			mode, _ = strconv.Atoi(t[2])
			var o sod.Object
			if e.rng.Intn(3) == 0 {
				o = e.typ.mk() // (the target must hold an Object: documented)
				err = s.s.AssignOne(&o)
				if err != nil {
					o = nil
				}
			} else {
				o, err = s.s.One()
			}
			if err == nil {
				objs = []sod.Object{o}
			}
		} else {
			lim, _ := strconv.ParseInt(t[2], 10, 64)
			if lim >= 0 {
				s.s.Limit(uint64(lim))
			}
			if t[3] == "1" {
				s.s.Reverse()
				s.rev = true
			}
			mode, _ = strconv.Atoi(t[4])
			if e.rng.Intn(3) == 0 {
				err = s.s.Assign(&objs)
			} else {
				objs, err = s.s.Collect()
			}
		}
		fls := make([]Flat, 0, len(objs))
		for _, o := range objs {
			fls = append(fls, e.flat(o))
			scribble(o)
		}
		e.lastColl = append([]Flat{}, fls...)
		e.lastRev = s.rev
		if mode == 1 {
			sort.SliceStable(fls, func(i, j int) bool { return fls[i].U < fls[j].U })
		}
		fl := make([]string, 0, len(objs))
		if mode != 2 {
			for _, f := range fls {
				fl = append(fl, f.String())
			}
		}
		if err != nil {
			e.emit("r %s", rd(cls(err)))
		} else {
			e.emit("r ok %d %s", len(objs), strings.Join(fl, " "))
		}
	case "sdel":
		sid, _ := strconv.Atoi(t[1])
		e.emit("r %s", cls(e.searches[sid].s.Delete()))
	case "aidx":
		fld, _ := strconv.Atoi(t[1])
		e.emit("r %s", e.assignIndex(fld))
	case "flush1", "flush1c":
		// Flush(o) / FlushAndCommit(o) with an object holding the last accepted value
		o := e.rec(parseFlat(t[1]))
		if t[0] == "flush1" {
			e.emit("r %s", cls(db.Flush(o)))
		} else {
			e.emit("r %s", cls(db.FlushAndCommit(o)))
		}
	case "expects":
		// expects <sid> <n> <zero_ok>
		sid, _ := strconv.Atoi(t[1])
		n, _ := strconv.Atoi(t[2])
		sr := e.searches[sid]
		if t[3] == "1" {
			sr.s.ExpectsZeroOrN(n)
		} else {
			sr.s.Expects(n)
		}
		if err := sr.s.Err(); err != nil {
			e.emit("r %s 0", rd(cls(err)))
		} else {
			e.emit("r ok %d", sr.s.Len())
		}
	case "snapcheck":
		// THE PROCESS DIES NOW: what a new process finds. The directory is copied and a child process
		// (same binary, real file system and clock) opens the copy: either it is told about a corruption
		// (first load or Control) or the directory and its index agree (C05, every configuration)
		e.emit("r ok")
		if v := e.snapcheck(); v != "" {
			e.emit("o snap %s", v)
		}
	case "commit":
		e.emit("r %s", cls(db.Commit(e.of())))
	case "flushall":
		e.emit("r %s", cls(db.FlushAll(e.of())))
	case "flushallc":
		e.emit("r %s", cls(db.FlushAllAndCommit(e.of())))
	case "control":
		e.ctlDiffer = e.setsDiffer()
		e.emit("r %s", cls(db.Control()))
	case "repair":
		// the order in which Repair meets unindexed files is Go map order: read it off the
		// FS log (files it opened), falling back to the ids it assigned
		before := e.snapshotIds()
		hashBefore := e.objFilesHash()
		vshim.StartRecording()
		err := db.Repair(e.of())
		e.repairTouched = hashBefore != e.objFilesHash()
		// the files Repair indexed, in the order it met them, are those that received the new object
		// ids, in id order (also when their content came from the cache and no file was opened); the
		// file it stopped at, if any, is the one it opened last without indexing it
		var opened []string
		seen := map[string]bool{}
		for _, x := range strings.Fields(e.newIdsOrder(before)) {
			if !seen[e.ustr(atoi(x))] {
				seen[e.ustr(atoi(x))] = true
				opened = append(opened, x)
			}
		}
		for _, ev := range vshim.StopRecording() {
			if ev.Kind == "open" && filepath.Base(ev.Path) != sod.SchemaFilename {
				name, _ := uuidPart(filepath.Base(ev.Path))
				if n, ok := e.un[name]; ok && !seen[name] {
					seen[name] = true
					opened = append(opened, strconv.Itoa(n))
				}
			}
		}
		if err != nil {
			// Repair stopped at some file (unreadable, or conflicting with a unique constraint). When
			// that read was served by the cache no file was opened: the file it stopped at is one of
			// the files still unindexed that cannot be indexed; any of them, met first after the files
			// that did get indexed, gives the same outcome
			for _, x := range e.unindexableAfterRepair() {
				if !seen[e.ustr(x)] {
					seen[e.ustr(x)] = true
					opened = append(opened, strconv.Itoa(x))
				}
			}
		}
		e.emit("o order %s", strings.Join(opened, " "))
		e.emit("r %s", cls(err))
	case "close":
		e.emit("r %s", cls(db.Close()))
		e.drainFlushers()
	case "reopen":
		e.db = sod.Open(e.root)
		e.searches = map[int]*srch{}
		e.emit("r ok")
	case "vopen":
		// a new handle used through another Go struct of the same name (C17)
		k, _ := strconv.Atoi(t[1])
		e.db = sod.Open(e.root)
		e.searches = map[int]*srch{}
		e.typ = types[k]
		e.emit("r ok")
	case "dirhash":
		e.emit("r ok")
		e.emit("# hash %s", dirHash(e.root))
	case "drop":
		e.otherN = 0
		e.emit("r %s", cls(db.Drop()))
	case "schema":
		_, err := db.Schema(e.of())
		e.emit("r %s", cls(err))
	case "dump":
		e.dump()
	case "fs":
		e.fsdump()
	case "tick":
		rel, ok := vshim.Tick("startAsyncWritesRoutine", 5*time.Second)
		if !ok {
			e.emit("r hang tick")
		} else {
			e.emit("r ok")
			e.emit("# released %d", rel)
		}
	case "failat", "crashat":
		e.failNext, _ = strconv.Atoi(t[1])
		e.crash = t[0] == "crashat"
		e.emit("r ok")
	case "rmfile", "corrupt", "truncfile":
		u, _ := strconv.Atoi(t[1])
		e.emit("r %s", e.fileFault(t[0], u))
	case "addfile":
		f := parseFlat(t[1])
		e.emit("r %s", e.addFile(f))
	case "rmschema":
		err := os.Remove(filepath.Join(e.colDir(), sod.SchemaFilename))
		e.emit("r %s", cls(err))
	case "rmentry":
		u, _ := strconv.Atoi(t[1])
		e.emit("r %s", e.rmEntry(u))
	case "rmfentry":
		u, _ := strconv.Atoi(t[1])
		fld, _ := strconv.Atoi(t[2])
		e.emit("r %s", e.rmFieldEntry(u, fld))
	case "stray":
		e.emit("r %s", e.stray(t[1]))
	default:
		panic("harness: unknown op " + t[0])
	}
}

func (e *Exec) drainFlushers() {
	if !e.virtual {
		return
	}
	for i := 0; i < 64; i++ {
		if vshim.CountGoroutines("startAsyncWritesRoutine") == 0 {
			return
		}
		vshim.Tick("startAsyncWritesRoutine", 5*time.Second)
	}
	e.emit("r hang drain")
}

func valTok(v interface{}) string {
	switch k := v.(type) {
	case int64:
		return itok(k)
	case uint64:
		return utok(k)
	case float64:
		return fcode(k)
	case string:
		return stok(k)
	}
	return fmt.Sprintf("?%T", v)
}

func (e *Exec) snapshotIds() map[uint64]bool {
	m := map[uint64]bool{}
	var s *sod.Schema
	var err error
	if safe(func() { s, err = e.db.Schema(e.of()) }) != nil || s == nil || (err != nil && !sod.IsIndexCorrupted(err)) || s.ObjectIndex == nil {
		return m
	}
	e.db.RLock()
	for id := range s.ObjectIndex.ObjectIds {
		m[id] = true
	}
	e.db.RUnlock()
	return m
}

// newIdsOrder: uuid numbers of the objects indexed since [before], by ascending object id
func (e *Exec) newIdsOrder(before map[uint64]bool) string {
	var s *sod.Schema
	var err error
	if safe(func() { s, err = e.db.Schema(e.of()) }) != nil || s == nil || (err != nil && !sod.IsIndexCorrupted(err)) || s.ObjectIndex == nil {
		return ""
	}
	e.db.RLock()
	defer e.db.RUnlock()
	var ids []uint64
	for id := range s.ObjectIndex.ObjectIds {
		if !before[id] {
			ids = append(ids, id)
		}
	}
	sort.Slice(ids, func(i, j int) bool { return ids[i] < ids[j] })
	out := []string{}
	for _, id := range ids {
		out = append(out, strconv.Itoa(e.unum(s.ObjectIndex.ObjectIds[id])))
	}
	return strings.Join(out, " ")
}

// dump: the live index read through Schema() under the exported read lock
func (e *Exec) dump() {
	s, err := e.db.Schema(e.of())
	if err != nil || s == nil || s.ObjectIndex == nil {
		e.emit("r %s", cls(err))
		return
	}
	e.emit("r ok")
	e.db.RLock()
	defer e.db.RUnlock()
	oi := s.ObjectIndex
	var ids []uint64
	for id := range oi.ObjectIds {
		ids = append(ids, id)
	}
	sort.Slice(ids, func(i, j int) bool { return ids[i] < ids[j] })
	var sb []string
	for _, id := range ids {
		sb = append(sb, fmt.Sprintf("%d:%d", id, e.unum(oi.ObjectIds[id])))
	}
	e.emit("s ids %s", strings.Join(sb, " "))
	for i, p := range shape.Paths {
		fi, ok := oi.Fields[p]
		if !ok {
			continue
		}
		sb = sb[:0]
		for _, en := range fi.Index {
			sb = append(sb, fmt.Sprintf("%s:%d", valTok(en.Value), en.ObjectId))
		}
		e.emit("s ix %d %s %s", i, fi.Cast, strings.Join(sb, " "))
	}
	e.emit("s cfg cache=%s async=%s", b2s(s.Cache), b2s(s.AsyncWrites != nil && s.AsyncWrites.Enable))
}

func (e *Exec) assignIndex(fld int) string {
	var err error
	var toks []string
	name := fieldName(fld)
	of := e.of()
	conv := func(n int, at func(i int) string) {
		for i := 0; i < n; i++ {
			toks = append(toks, at(i))
		}
	}
	switch fld {
	case shape.FA:
		var t []int64
		err = e.db.AssignIndex(of, name, &t)
		conv(len(t), func(i int) string { return itok(t[i]) })
	case shape.FB:
		var t []int8
		err = e.db.AssignIndex(of, name, &t)
		conv(len(t), func(i int) string { return itok(int64(t[i])) })
	case shape.FU:
		var t []uint64
		err = e.db.AssignIndex(of, name, &t)
		conv(len(t), func(i int) string { return utok(t[i]) })
	case shape.FV:
		var t []uint32
		err = e.db.AssignIndex(of, name, &t)
		conv(len(t), func(i int) string { return utok(uint64(t[i])) })
	case shape.FE:
		var t []uint16
		err = e.db.AssignIndex(of, name, &t)
		conv(len(t), func(i int) string { return utok(uint64(t[i])) })
	case shape.FF, shape.FNDZ:
		var t []float64
		err = e.db.AssignIndex(of, name, &t)
		conv(len(t), func(i int) string { return fcode(t[i]) })
	case shape.FG:
		var t []float32
		err = e.db.AssignIndex(of, name, &t)
		conv(len(t), func(i int) string { return fcode(float64(t[i])) })
	case shape.FT:
		var t []time.Time
		err = e.db.AssignIndex(of, name, &t)
		conv(len(t), func(i int) string { return itok(t[i].UTC().UnixNano()) })
	case shape.FNX:
		var t []int32
		err = e.db.AssignIndex(of, name, &t)
		conv(len(t), func(i int) string { return itok(int64(t[i])) })
	case shape.FNVP, shape.FTM, shape.FVM:
		var t []int
		err = e.db.AssignIndex(of, name, &t)
		conv(len(t), func(i int) string { return itok(int64(t[i])) })
	default:
		var t []string
		err = e.db.AssignIndex(of, name, &t)
		conv(len(t), func(i int) string { return stok(t[i]) })
	}
	return cls(err) + " " + strings.Join(toks, " ")
}

// ---------------------------------------------------------------- independent view of the directory

func (e *Exec) colDir() string {
	name := "shape.Rec"
	if e.cfg.Lower {
		name = "shape._rec"
	}
	return filepath.Join(e.root, name)
}

func (e *Exec) fileName(u int) string {
	n := e.ustr(u) + e.cfg.Ext
	if e.diskCompress() {
		n += ".gz"
	}
	return n
}

// diskCompress: the compress flag as written in schema.json (Create ignores it on an existing schema)
func (e *Exec) diskCompress() bool {
	b, err := os.ReadFile(filepath.Join(e.colDir(), sod.SchemaFilename))
	if err != nil {
		return e.cfg.Compress
	}
	var m struct {
		Compress bool `json:"compress"`
	}
	if json.Unmarshal(b, &m) != nil {
		return e.cfg.Compress
	}
	return m.Compress
}

// readMaybeGz: object files are compressed exactly when the collection says so (whatever their name ends with)
func readMaybeGz(path string, gz bool) ([]byte, error) {
	f, err := os.Open(path)
	if err != nil {
		return nil, err
	}
	defer f.Close()
	var r io.Reader = f
	if gz {
		if r, err = gzip.NewReader(f); err != nil {
			return nil, err
		}
	}
	return io.ReadAll(r)
}

// uuidPart: what the name of a directory entry is listed under: its first 36 bytes (a uuid is 36 bytes
// long, the extension - with or without a dot - is what follows); shorter names are taken whole
func uuidPart(name string) (pre, suf string) {
	if len(name) >= 36 {
		return name[:36], name[36:]
	}
	return name, ""
}

// canonName: U<n><suffix> for names whose prefix is a known uuid, else x<hex of name>
func (e *Exec) canonName(name string) string {
	pre, suf := uuidPart(name)
	if n, ok := e.un[pre]; ok {
		return fmt.Sprintf("U%d%s", n, suf)
	}
	return "x" + stok(name)[1:]
}

func (e *Exec) fsdump() {
	e.emit("r ok")
	roots, _ := os.ReadDir(e.root)
	var rn []string
	for _, d := range roots {
		if d.Name() != "shape.Other" && d.Name() != "shape._other" {
			rn = append(rn, d.Name())
		}
	}
	sort.Strings(rn)
	e.emit("s root %s", strings.Join(rn, " "))
	dir := e.colDir()
	ents, err := os.ReadDir(dir)
	if err != nil {
		e.emit("s dir -")
		return
	}
	type fe struct{ canon, name string }
	var fes []fe
	for _, d := range ents {
		fes = append(fes, fe{e.canonName(d.Name()), d.Name()})
	}
	sort.Slice(fes, func(i, j int) bool { return fes[i].canon < fes[j].canon })
	var names []string
	for _, f := range fes {
		names = append(names, f.canon)
	}
	e.emit("s dir %s", strings.Join(names, " "))
	for _, f := range fes {
		if f.name == sod.SchemaFilename || !strings.HasPrefix(f.canon, "U") {
			continue
		}
		data, err := readMaybeGz(filepath.Join(dir, f.name), e.diskCompress())
		var r shape.Rec
		if err == nil {
			dec := json.NewDecoder(strings.NewReader(string(data)))
			err = dec.Decode(&r)
		}
		if err != nil {
			e.emit("s file %s BAD", f.canon)
			continue
		}
		pre, _ := uuidPart(f.name)
		e.emit("s file %s %s", f.canon, recToFlat(&r, e.unum(pre)))
	}
	e.schemaDump(filepath.Join(dir, sod.SchemaFilename))
}

// schemaDump: schema.json parsed with a generic decoder keeping numbers exact
func (e *Exec) schemaDump(path string) {
	data, err := os.ReadFile(path)
	if err != nil {
		e.emit("s schema -")
		return
	}
	dec := json.NewDecoder(strings.NewReader(string(data)))
	dec.UseNumber()
	var top map[string]interface{}
	if err := dec.Decode(&top); err != nil {
		e.emit("s schema BAD")
		return
	}
	bad := func(why string) { e.emit("s schema BAD") }
	get := func(m map[string]interface{}, k string) interface{} { return m[k] }
	ext, _ := get(top, "extension").(string)
	compress, _ := get(top, "compress").(bool)
	cache, _ := get(top, "cache").(bool)
	async := "none"
	if a, ok := get(top, "async-writes").(map[string]interface{}); ok {
		en, _ := a["enable"].(bool)
		thr, _ := a["threshold"].(json.Number)
		to, _ := a["timeout"].(string)
		d, err := time.ParseDuration(to)
		if err != nil {
			bad("timeout")
			return
		}
		async = fmt.Sprintf("%s,%s,%d", b2s(en), thr.String(), int64(d/(100*time.Millisecond)))
		if !en {
			// asynchronous writes disabled through a settings value (enable: false): the same
			// configuration as no settings at all; threshold and timeout are then meaningless
			async = "none"
		}
	}
	fields, ok := get(top, "fields").(map[string]interface{})
	if !ok {
		bad("fields")
		return
	}
	cons := make([]string, NF)
	extra := "ok"
	seen := 0
	for p, v := range fields {
		fd, _ := v.(map[string]interface{})
		c, _ := fd["constraints"].(map[string]interface{})
		flag := func(k string) string { b, _ := c[k].(bool); return b2s(b) }
		fl := flag("index") + flag("unique") + flag("upper") + flag("lower")
		idx := -1
		for i, sp := range shape.Paths {
			if sp == p {
				idx = i
			}
		}
		if idx >= 0 {
			cons[idx] = fl
			seen++
			continue
		}
		if !((p == "Sl" || p == "M" || p == "P") && fl == "0000") {
			extra = "unexpected:" + p
		}
	}
	if seen != NF || len(fields) != NF+3 {
		extra = fmt.Sprintf("count:%d/%d", seen, len(fields))
	}
	e.emit("s schema ext=%s compress=%s cache=%s async=%s cons=%s extra=%s", stok(ext), b2s(compress), b2s(cache), async, strings.Join(cons, ","), extra)
	index, ok := get(top, "index").(map[string]interface{})
	if !ok {
		bad("index")
		return
	}
	oids, _ := index["object-ids"].(map[string]interface{})
	type iu struct {
		id uint64
		u  int
	}
	var ius []iu
	for k, v := range oids {
		id, _ := strconv.ParseUint(k, 10, 64)
		s, _ := v.(string)
		ius = append(ius, iu{id, e.unum(s)})
	}
	sort.Slice(ius, func(i, j int) bool { return ius[i].id < ius[j].id })
	var sb []string
	for _, x := range ius {
		sb = append(sb, fmt.Sprintf("%d:%d", x.id, x.u))
	}
	e.emit("s sids %s", strings.Join(sb, " "))
	fidx, _ := index["fields"].(map[string]interface{})
	for i, p := range shape.Paths {
		v, ok := fidx[p]
		if !ok {
			continue
		}
		fi, _ := v.(map[string]interface{})
		cast, _ := fi["cast"].(string)
		ents, _ := fi["index"].([]interface{})
		sb = sb[:0]
		for _, en := range ents {
			tup, _ := en.([]interface{})
			if len(tup) != 2 {
				sb = append(sb, "?")
				continue
			}
			id, _ := tup[1].(json.Number)
			tok := "?"
			switch val := tup[0].(type) {
			case json.Number:
				switch cast {
				case "int64":
					tok = "i" + val.String()
				case "uint64":
					tok = "u" + val.String()
				case "float64":
					f, _ := val.Float64()
					tok = fcode(f)
				}
			case string:
				tok = stok(val)
			}
			sb = append(sb, tok+":"+id.String())
		}
		e.emit("s six %d %s %s", i, cast, strings.Join(sb, " "))
	}
}

// ---------------------------------------------------------------- faults applied to the real directory

func (e *Exec) fileFault(kind string, u int) string {
	path := filepath.Join(e.colDir(), e.fileName(u))
	if _, err := os.Stat(path); err != nil {
		return cls(err)
	}
	switch kind {
	case "rmfile":
		return cls(os.Remove(path))
	case "truncfile":
		return cls(os.Truncate(path, 0))
	case "corrupt":
		return cls(os.WriteFile(path, []byte("{\"A\": [1,2"), 0600))
	}
	return "other"
}

// addFile writes an object file the way an external tool would (plain JSON, gzip when the
// collection is compressed), without going through sod
func (e *Exec) addFile(f Flat) string {
	r := flatToRec(f)
	data, _ := json.Marshal(r)
	if e.rng.Intn(2) == 0 {
		// a valid object file that sod did not write itself: indented, with a field unknown to the struct
		var m map[string]interface{}
		dec := json.NewDecoder(strings.NewReader(string(data)))
		dec.UseNumber()
		if dec.Decode(&m) == nil {
			m["ZzComment"] = "restored by hand"
			data, _ = json.MarshalIndent(m, "", "  ")
		}
	}
	path := filepath.Join(e.colDir(), e.fileName(f.U))
	if e.diskCompress() {
		var sb strings.Builder
		zw := gzip.NewWriter(&sb)
		zw.Write(data)
		zw.Close()
		data = []byte(sb.String())
	}
	return cls(os.WriteFile(path, data, 0600))
}

// rmEntry removes the index entries of one object from schema.json with a generic JSON library
func (e *Exec) rmEntry(u int) string {
	path := filepath.Join(e.colDir(), sod.SchemaFilename)
	data, err := os.ReadFile(path)
	if err != nil {
		return cls(err)
	}
	dec := json.NewDecoder(strings.NewReader(string(data)))
	dec.UseNumber()
	var top map[string]interface{}
	if err := dec.Decode(&top); err != nil {
		return "json"
	}
	index, _ := top["index"].(map[string]interface{})
	oids, _ := index["object-ids"].(map[string]interface{})
	target := ""
	for k, v := range oids {
		if s, _ := v.(string); s == e.ustr(u) {
			target = k
		}
	}
	if target == "" {
		return "notfound"
	}
	delete(oids, target)
	fidx, _ := index["fields"].(map[string]interface{})
	for _, v := range fidx {
		fi, _ := v.(map[string]interface{})
		ents, _ := fi["index"].([]interface{})
		out := []interface{}{}
		for _, en := range ents {
			tup, _ := en.([]interface{})
			if len(tup) == 2 {
				if id, _ := tup[1].(json.Number); id.String() == target {
					continue
				}
			}
			out = append(out, en)
		}
		fi["index"] = out
	}
	nd, _ := json.Marshal(top)
	return cls(os.WriteFile(path, nd, 0600))
}

// rmFieldEntry: the entry of ONE object is removed from the index of ONE field in schema.json: the object
// stays in the id table and in every other field index
func (e *Exec) rmFieldEntry(u, fld int) string {
	path := filepath.Join(e.colDir(), sod.SchemaFilename)
	data, err := os.ReadFile(path)
	if err != nil {
		return cls(err)
	}
	dec := json.NewDecoder(strings.NewReader(string(data)))
	dec.UseNumber()
	var top map[string]interface{}
	if err := dec.Decode(&top); err != nil {
		return "json"
	}
	index, _ := top["index"].(map[string]interface{})
	oids, _ := index["object-ids"].(map[string]interface{})
	target := ""
	for k, v := range oids {
		if s, _ := v.(string); s == e.ustr(u) {
			target = k
		}
	}
	fidx, _ := index["fields"].(map[string]interface{})
	fi, _ := fidx[shape.Paths[fld]].(map[string]interface{})
	if target == "" || fi == nil {
		return "notfound"
	}
	ents, _ := fi["index"].([]interface{})
	out := []interface{}{}
	for _, en := range ents {
		tup, _ := en.([]interface{})
		if len(tup) == 2 {
			if id, _ := tup[1].(json.Number); id.String() == target {
				continue
			}
		}
		out = append(out, en)
	}
	fi["index"] = out
	nd, _ := json.Marshal(top)
	return cls(os.WriteFile(path, nd, 0600))
}

func (e *Exec) stray(kind string) string {
	dir := e.colDir()
	switch kind {
	case "nodot":
		return cls(os.WriteFile(filepath.Join(dir, "README"), []byte("x"), 0600))
	case "dot":
		return cls(os.WriteFile(filepath.Join(dir, "notes.txt"), []byte("x"), 0600))
	case "subdir":
		return cls(os.MkdirAll(filepath.Join(dir, "sub.d"), 0700))
	case "uuiddir":
		return cls(os.MkdirAll(filepath.Join(dir, e.ustr(len(e.uu))+".json"), 0700))
	}
	return "other"
}

// dirHash: digest of every file (relative name + bytes) under root
func dirHash(root string) string {
	h := sha256.New()
	filepath.Walk(root, func(p string, info os.FileInfo, err error) error {
		if err != nil || info.IsDir() {
			return nil
		}
		rel, _ := filepath.Rel(root, p)
		b, _ := os.ReadFile(p)
		fmt.Fprintf(h, "%s\x00%d\x00", rel, len(b))
		h.Write(b)
		return nil
	})
	return hex.EncodeToString(h.Sum(nil))[:16]
}

func atoi(s string) int { n, _ := strconv.Atoi(s); return n }

// snapcheck copies the database directory and lets a child process judge the copy; "" when the
// child could not run
func (e *Exec) snapcheck() string {
	cp, err := os.MkdirTemp("", "hzsnap")
	if err != nil {
		return ""
	}
	defer os.RemoveAll(cp)
	err = filepath.Walk(e.root, func(path string, info os.FileInfo, err error) error {
		if err != nil {
			return nil
		}
		rel, _ := filepath.Rel(e.root, path)
		dst := filepath.Join(cp, rel)
		if info.IsDir() {
			return os.MkdirAll(dst, 0700)
		}
		data, rerr := os.ReadFile(path)
		if rerr != nil {
			return nil
		}
		return os.WriteFile(dst, data, 0600)
	})
	if err != nil {
		return ""
	}
	lower := "0"
	if e.cfg.Lower {
		lower = "1"
	}
	cmd := exec.Command(os.Args[0], "-snapchild", cp, "-snaplower", lower)
	out, err := cmd.Output()
	if err != nil {
		return "childfailed"
	}
	return strings.TrimSpace(string(out))
}

// snapChild runs in the child process: a fresh handle on the copied directory
func snapChild(root string, lower bool) {
	db := sod.Open(root)
	of := &shape.Rec{}
	dir := filepath.Join(root, "shape.Rec")
	if lower {
		sod.LowercaseNames = true
		dir = filepath.Join(root, "shape._rec")
	}
	if _, err := os.Stat(dir); err != nil {
		fmt.Println("nodir")
		return
	}
	verdict := func() (v string) {
		defer func() {
			if r := recover(); r != nil {
				v = "panic"
			}
		}()
		if _, err := db.Schema(of); err != nil {
			return "told:" + cls(err)
		}
		if err := db.Control(); err != nil {
			return "told:" + cls(err)
		}
		switch dirSetsDiffer(dir) {
		case 0:
			// every indexed object must also be readable
			if objs, err := db.All(of); err != nil {
				return "silent-unreadable:" + cls(err)
			} else {
				return fmt.Sprintf("agree:%d", len(objs))
			}
		case 1:
			return "silent-disagree"
		}
		return "unknown"
	}()
	fmt.Println(verdict)
}
