package main

// Field path resolution (object_index.go valueFieldByName, the walk a search makes to find the value of the
// searched field in an object) against coq/Model/Path.v, on the struct types and values the descriptor engine
// builds at run time: nesting by value, behind pointers, behind NIL pointers (the code walks on into a fresh
// zero value), pointers to pointers, unexported fields (also unexported pointers that are NOT nil: reflect
// marks what is reached through them read-only), containers, time.Time. Lines written after the V/K/X lines:
//   W <value tree: every struct field with its exported flag, every nil pointer with the tree of the zero
//      value of its element type, every leaf with an id (0 inside zero values)>
//   R <path> <ok> <CanInterface> <type of the value reached> <leaf id or ->
// Model-free oracle: every DESCRIBED path (FieldDescriptors) resolves to an interface-able value.

import (
	"bufio"
	"fmt"
	"math/rand"
	"reflect"
	"strings"
	"unsafe"

	"github.com/0xrawsec/sod"
)

// fillPrivate: unexported pointer fields are given a value two times out of three (reflect cannot set
// them: done through their address)
func fillPrivate(r *rand.Rand, v reflect.Value, depth int) {
	if depth > 8 {
		return
	}
	switch v.Kind() {
	case reflect.Ptr:
		if !v.IsNil() {
			fillPrivate(r, v.Elem(), depth+1)
		}
	case reflect.Struct:
		if v.Type().AssignableTo(timeT) {
			return
		}
		for i := 0; i < v.NumField(); i++ {
			f := v.Field(i)
			if f.Kind() == reflect.Ptr && f.IsNil() && !f.CanSet() && f.CanAddr() && r.Intn(3) != 0 {
				reflect.NewAt(f.Type(), unsafe.Pointer(f.UnsafeAddr())).Elem().Set(reflect.New(f.Type().Elem()))
			}
			fillPrivate(r, f, depth+1)
		}
	}
}

func valTreeP(v reflect.Value, id *int, addrs map[uintptr]int, zero bool, depth int) string {
	t := v.Type()
	leaf := func() string {
		if zero {
			return fmt.Sprintf("(l %s 0)", hx(t.String()))
		}
		*id++
		if v.CanAddr() {
			addrs[v.UnsafeAddr()] = *id
		}
		return fmt.Sprintf("(l %s %d)", hx(t.String()), *id)
	}
	if depth > 40 {
		return leaf()
	}
	switch v.Kind() {
	case reflect.Ptr:
		if v.IsNil() {
			return "(n " + hx(t.String()) + " " + valTreeP(reflect.New(t.Elem()).Elem(), id, addrs, true, depth+1) + ")"
		}
		return "(p " + hx(t.String()) + " " + valTreeP(v.Elem(), id, addrs, zero, depth+1) + ")"
	case reflect.Struct:
		var b strings.Builder
		fmt.Fprintf(&b, "(s %s", hx(t.String()))
		for i := 0; i < v.NumField(); i++ {
			e := 0
			if t.Field(i).IsExported() {
				e = 1
			}
			fmt.Fprintf(&b, " (f %s %d %s)", hx(t.Field(i).Name), e, valTreeP(v.Field(i), id, addrs, zero, depth+1))
		}
		b.WriteString(")")
		return b.String()
	}
	return leaf()
}

// every path of the TYPE down to depth 4 (through pointers), with the names of unexported fields too
func typePaths(t reflect.Type, prefix string, depth int, out *[]string) {
	for t.Kind() == reflect.Ptr {
		t = t.Elem()
	}
	if t.Kind() != reflect.Struct || depth > 4 {
		return
	}
	for i := 0; i < t.NumField(); i++ {
		p := t.Field(i).Name
		if prefix != "" {
			p = prefix + "." + p
		}
		*out = append(*out, p)
		typePaths(t.Field(i).Type, p, depth+1, out)
	}
}

// ptrPtrOnPath: some field along the path is a pointer to a pointer (a non-nil pointer to a nil pointer is
// dereferenced into the invalid Value: the path is then reported unknown; observed, see DESIGN.md section 5)
func ptrPtrOnPath(t reflect.Type, path string) bool {
	for _, name := range strings.Split(path, ".") {
		for t.Kind() == reflect.Ptr {
			t = t.Elem()
		}
		if t.Kind() != reflect.Struct {
			return false
		}
		f, ok := t.FieldByName(name)
		if !ok {
			return false
		}
		t = f.Type
		if t.Kind() == reflect.Ptr && t.Elem().Kind() == reflect.Ptr {
			return true
		}
	}
	return false
}

func runPaths(w *bufio.Writer, r *rand.Rand, pv reflect.Value, fds []sod.FieldDescriptor, T reflect.Type) {
	fillPrivate(r, pv.Elem(), 0)
	id := 0
	addrs := map[uintptr]int{}
	fmt.Fprintf(w, "W %s\n", valTreeP(pv, &id, addrs, false, 0))
	var all []string
	typePaths(pv.Type(), "", 0, &all)
	probes := map[string]bool{}
	for _, fd := range fds {
		probes[fd.Path] = true
	}
	for k := 0; k < 24 && len(all) > 0; k++ {
		p := all[r.Intn(len(all))]
		switch r.Intn(8) {
		case 0:
			p += ".x"
		case 1:
			p += "."
		case 2:
			p = "." + p
		case 3:
			p = strings.Replace(p, ".", "..", 1)
		case 4:
			p = []string{"", "nope", "x.y", "."}[r.Intn(4)]
		}
		probes[p] = true
	}
	described := map[string]bool{}
	for _, fd := range fds {
		described[fd.Path] = true
	}
	for p := range probes {
		var out reflect.Value
		var ok bool
		paniced := ""
		func() {
			defer func() {
				if rec := recover(); rec != nil {
					paniced = fmt.Sprint(rec)
				}
			}()
			out, ok = sod.VerifValueFieldByName(pv, sod.VerifFieldPath(p))
		}()
		if paniced != "" {
			fmt.Fprintf(w, "! C19 resolving the field path %q in a value of %s panicked: %s\n", p, T, paniced)
			continue
		}
		if !ok {
			fmt.Fprintf(w, "R %s 0 - - -\n", hx(p))
			if described[p] && !ptrPtrOnPath(pv.Type(), p) {
				fmt.Fprintf(w, "! C02 the described field path %q of %s does not resolve in a value of the type\n", p, T)
			}
			continue
		}
		ci := 0
		if out.CanInterface() {
			ci = 1
		}
		ids := "-"
		if k := out.Kind(); k != reflect.Struct && k != reflect.Ptr {
			ids = "0"
			if out.CanAddr() {
				if n, found := addrs[out.UnsafeAddr()]; found {
					ids = fmt.Sprint(n)
				}
			}
		}
		fmt.Fprintf(w, "R %s 1 %d %s %s\n", hx(p), ci, hx(out.Type().String()), ids)
		if described[p] && ci == 0 {
			fmt.Fprintf(w, "! C02 the described field path %q of %s resolves to a value the API cannot read\n", p, T)
		}
	}
}
