package main

// Generators: structured, mostly-valid histories from one PRNG; op mix per profile.

import (
	"fmt"
	"math"
	"math/rand"
	"sort"
	"strings"
	"sync/atomic"
	"time"

	"verif/harness/shape"
)

type Profile struct {
	Name    string
	W       map[string]int // op weights
	MaxOps  int
	CfgMode string // "sync" | "any" | "async" | "cache"
	Sweep   int    // percent chance of a sweep (count all dump fs) after a mutating op
	UniqueP int    // percent chance per candidate field of a unique constraint
	IndexP  int
}

var baseW = map[string]int{"ins": 30, "upd": 14, "del": 6, "get": 6, "getabs": 3, "exist": 3, "count": 2, "all": 3,
	"search": 12, "and": 5, "or": 4, "collect": 8, "len": 2, "one": 2, "sdel": 2, "many": 4, "bulk": 2, "delall": 1,
	"reopen": 3, "closereopen": 2, "aidx": 2, "control": 1, "commit": 1}

func profile(name string) Profile {
	w := map[string]int{}
	for k, v := range baseW {
		w[k] = v
	}
	p := Profile{Name: name, W: w, MaxOps: 30, CfgMode: "any", Sweep: 35, UniqueP: 25, IndexP: 45}
	switch name {
	case "C02", "C13":
		w["search"], w["and"], w["or"], w["collect"], w["sdel"], w["one"], w["aidx"] = 25, 12, 10, 16, 4, 5, 5
		w["chain"] = 8
		p.IndexP = 55
	case "C03":
		p.UniqueP = 60
		w["upd"], w["many"] = 25, 8
	case "C07":
		w["many"], w["bulk"] = 25, 15
		p.UniqueP = 45
	case "C20":
		w["search"], w["collect"], w["del"], w["upd"] = 20, 25, 12, 20
		w["chain"] = 4
		w["stalerefine"] = 5
		w["kept"] = 8
	case "golden":
		// what the PINNED release can run without meeting its known defects: plain writes
		for k := range w {
			w[k] = 0
		}
		w["ins"], w["upd"], w["del"], w["many"], w["bulk"], w["get"], w["count"], w["commit"] = 30, 14, 8, 5, 3, 4, 2, 2
		p.Sweep = 0
		p.MaxOps = 24
	case "C04", "C18":
		w["reopen"], w["closereopen"], w["search"], w["collect"] = 10, 6, 14, 10
		w["repairabandon"] = 3
		w["reopenorder"] = 8
		p.Sweep = 50
	case "C05":
		p.CfgMode = "syncany+async20"
		w["crashwrite"], w["reopen"], w["closereopen"], w["search"], w["collect"] = 30, 3, 2, 6, 4
		w["many"], w["bulk"] = 6, 2
		p.Sweep = 30
	case "C11":
		w["fault"], w["repair"], w["control"], w["schema"], w["reopen"], w["closereopen"] = 16, 9, 9, 6, 8, 3
		w["repairabandon"] = 6
		w["rmctl"] = 4
		w["many"], w["bulk"], w["or"], w["and"] = 2, 1, 1, 1
		p.CfgMode = "syncany+async20"
		p.Sweep = 45
	case "C10":
		p.CfgMode = "async"
		w["tick"], w["commit"], w["get"], w["exist"], w["del"], w["upd"] = 30, 6, 10, 8, 10, 16
		w["recreate"] = 5
		w["reopen"], w["closereopen"], w["control"] = 0, 5, 0
		p.Sweep = 40
	case "C17":
		w["recreate"], w["recreatebad"], w["variant"], w["reopen"], w["closereopen"], w["tick"] = 12, 6, 8, 4, 4, 8
		p.CfgMode = "anyasync"
	case "C19":
		// malformed files (corrupt / truncated / stray entries / removed schema) and argument
		// errors (unknown field, unknown operator, mistyped probe, invalid pattern: see genCmp)
		w["fault"], w["search"], w["and"], w["or"], w["collect"], w["one"], w["len"] = 14, 22, 8, 8, 12, 3, 3
		w["schema"], w["control"], w["repair"], w["reopen"], w["closereopen"], w["aidx"] = 5, 5, 4, 8, 3, 4
		p.CfgMode = "syncany"
		p.Sweep = 40
	case "C12":
		w["getabs"], w["tick"], w["control"], w["exist"] = 6, 6, 4, 8
	case "C01":
		w["getabs"] = 6
		w["recreate"] = 3 // Create on the existing collection switching cache / async settings, writes pending
	case "C06":
		w["getabs"], w["ins"], w["upd"], w["many"], w["bulk"], w["failwrite"] = 4, 22, 22, 8, 4, 22
		w["reopen"], w["closereopen"] = 2, 2
		p.Sweep = 100
		p.UniqueP = 50
	}
	return p
}

// extensions: with and without a leading dot, with inner dots, ending in .gz (with compression off the
// files are NOT compressed whatever their name says), empty
var extDom = []string{".dat", ".obj.v1", "", "dat", "-v1.json", ".gz", ".json.gz", ".dat", ""}

var strDom = []string{"", "a", "A", "b", "ab", "aB", "Ab", "z", "ä", "Ä", "ß", "ı", "ǅ", "a.b", "[", "a+"}
var aDom = []int64{-2, -1, 0, 1, 2, 3, 4, 5, math.MinInt64, math.MaxInt64, 1<<53 + 1, -(1<<53 + 1)}
var bDom = []int64{-128, -1, 0, 1, 127}
var uDom = []uint64{0, 1, 2, 3, 1<<53 + 1, 1 << 63, math.MaxUint64, math.MaxUint64 - 1}
var vDom = []uint64{0, 1, 2, math.MaxUint32}
var fDom = []float64{-1.5, math.Copysign(0, -1), 0, 0.5, 1.5, 1e300, -1e300, 5e-324, math.MaxFloat64, 0.1}
var gDom = []float64{0, float64(float32(0.1)), 1.5, -2.5, math.MaxFloat32}
var tDom = []int64{0, 1, 1700000000123456789, 1700000000123456790, 1700000000123456788, 1<<53 + 1, -1, zeroTimeKey, zeroTimeKey, -6000000000000000000}

// zeroTimeKey: what sod's index key of the ZERO time.Time is (UTC().UnixNano() wraps around for year 1: the
// field of every object whose time was never set). The token i<zeroTimeKey> stands for time.Time{} itself
const zeroTimeKey = -6795364578871345152

var timeLocs = []*time.Location{time.UTC, time.FixedZone("E", 3600), time.UTC, time.FixedZone("W", -5*3600)}
var timeLocN int64
var xDom = []int64{-1, 0, 1, 2}
var zDom = []float64{0, 0.5, -0.5, 2}
var pDom = []int64{0, 1, 2}
var eDom = []uint64{0, 1, 65535}

func pick64(r *rand.Rand, d []int64) int64    { return d[r.Intn(len(d))] }
func pickU(r *rand.Rand, d []uint64) uint64   { return d[r.Intn(len(d))] }
func pickF(r *rand.Rand, d []float64) float64 { return d[r.Intn(len(d))] }
func pickS(r *rand.Rand) string               { return strDom[r.Intn(len(strDom))] }
func pct(r *rand.Rand, p int) bool            { return r.Intn(100) < p }

func genCfg(r *rand.Rand, p Profile) Cfg {
	var c Cfg
	c.Ext = ".json"
	switch p.CfgMode {
	case "sync":
	case "cache":
		c.Cache = true
	case "syncany", "syncany+async20":
		if p.CfgMode == "syncany+async20" && pct(r, 20) {
			// asynchronous histories of the crash profile: the process "dies" at snapcheck points
			c.Async, c.Thr, c.To = true, 3+r.Intn(4), 3+r.Intn(3)
		}
		c.Cache = pct(r, 40)
		c.Compress = pct(r, 25)
		c.Lower = pct(r, 15)
		if pct(r, 20) {
			c.Ext = extDom[r.Intn(len(extDom))]
		}
	case "anyasync":
		c.Cache = pct(r, 40)
		c.Compress = pct(r, 25)
		c.Lower = pct(r, 15)
		if pct(r, 40) {
			c.Async = true
			c.Thr = 1 + r.Intn(5)
			c.To = 1 + r.Intn(4)
		}
	case "async":
		c.Async = true
		c.Thr = 1 + r.Intn(5)
		c.To = 1 + r.Intn(4)
		c.Cache = pct(r, 30)
		c.Compress = pct(r, 25)
		c.Lower = pct(r, 15)
	default:
		c.Cache = pct(r, 40)
		c.Compress = pct(r, 25)
		c.Lower = pct(r, 15)
		if pct(r, 20) {
			c.Ext = extDom[r.Intn(len(extDom))]
		}
		if pct(r, 25) {
			c.Async = true
			c.Thr = 1 + r.Intn(5)
			c.To = 1 + r.Intn(4)
		}
	}
	for i := 0; i < NF; i++ {
		fl := []byte("0000")
		if pct(r, p.IndexP) {
			fl[0] = '1'
		}
		if shape.Kinds[i] == 's' {
			if pct(r, 25) {
				fl[2] = '1'
			} else if pct(r, 25) {
				fl[3] = '1'
			} else if pct(r, 4) {
				fl[2], fl[3] = '1', '1'
			}
		}
		c.Cons[i] = string(fl)
	}
	// unique constraints on at most two of the candidate fields
	cand := []int{shape.FK, shape.FU, shape.FA, shape.FNY, shape.FT, shape.FF, shape.FE}
	nu := 0
	for _, i := range r.Perm(len(cand)) {
		if nu < 2 && pct(r, p.UniqueP) {
			fl := []byte(c.Cons[cand[i]])
			fl[1] = '1'
			if pct(r, 70) {
				fl[0] = '1'
			}
			c.Cons[cand[i]] = string(fl)
			nu++
		}
	}
	return c
}

func genRec(r *rand.Rand, c Cfg) Flat {
	rec := &shape.Rec{}
	rec.A = pick64(r, aDom)
	rec.B = int8(pick64(r, bDom))
	rec.U = pickU(r, uDom)
	rec.V = uint32(pickU(r, vDom))
	rec.F = pickF(r, fDom)
	rec.G = float32(pickF(r, gDom))
	rec.S = pickS(r)
	rec.K = pickS(r)
	if pct(r, 50) {
		rec.K = fmt.Sprintf("k%d", r.Intn(12)) // a larger domain so that unique fields fill up
	}
	rec.T = timeOf(pick64(r, tDom))
	if pct(r, 70) {
		rec.N = &shape.Nested{X: int32(pick64(r, xDom)), Y: pickS(r)}
		if pct(r, 60) {
			rec.N.D = &shape.Deep{Z: pickF(r, zDom), W: pickS(r)}
		}
	}
	rec.NV.P = int(pick64(r, pDom))
	rec.NV.Q = pickS(r)
	rec.E = uint16(pickU(r, eDom))
	if pct(r, 15) {
		rec.TM = 1 + r.Intn(3)
	}
	if pct(r, 15) {
		rec.VM = 1 + r.Intn(3)
	}
	p := clonePayload(r.Intn(len(payloads)))
	rec.Sl, rec.M, rec.P = p.Sl, p.M, p.P
	f := recToFlat(rec, 0)
	// spread the values of unique numeric fields so that collections can grow
	for i := 0; i < NF; i++ {
		if c.Cons[i][1] == '1' && pct(r, 60) {
			switch shape.Kinds[i] {
			case 'i':
				if i != shape.FB {
					f.K[i] = itok(int64(r.Intn(14)))
				}
			case 'u':
				if i == shape.FU {
					f.K[i] = utok(uint64(r.Intn(14)))
				}
			case 'f':
				f.K[i] = fcode(float64(r.Intn(14)) / 2)
			}
		}
	}
	return f
}

// timeOf: the instant a token stands for, in one of several REPRESENTATIONS (location) in turn: an index key,
// a uniqueness check or a comparison depends on the instant only
// withKey: the flat value with one scalar key replaced; a key below a nil pointer makes the pointer non-nil
func withKey(f Flat, fld int, tok string) Flat {
	nb := f.R % 4
	switch fld {
	case shape.FNX, shape.FNY:
		if nb&1 != 0 {
			f.R = f.R - nb + 2
		}
	case shape.FNDZ, shape.FNDW:
		f.R -= nb
	}
	f.K[fld] = tok
	return f
}

func timeOf(n int64) time.Time {
	loc := timeLocs[int(atomic.AddInt64(&timeLocN, 1))%len(timeLocs)]
	if n == zeroTimeKey {
		return time.Time{}.In(loc)
	}
	return time.Unix(0, n).In(loc)
}

func genBad(r *rand.Rand, f Flat) Flat {
	// an unserialisable float payload
	bad := []string{"fnan", "f9218868437227405312", "f-9218868437227405312"}
	f.K[shape.FF] = bad[r.Intn(3)]
	return f
}

// probeFor: a probe value for a field: mostly stored values and their neighbours
func probeFor(r *rand.Rand, e *Exec, fld int) string {
	var pool []string
	for _, o := range e.spec.live {
		pool = append(pool, o.K[fld])
	}
	sort.Strings(pool)
	dom := genRec(r, e.cfg).K[fld]
	if len(pool) > 0 && pct(r, 65) {
		k := pool[r.Intn(len(pool))]
		switch k[0] {
		case 'i':
			v := idec(k)
			d := int64(r.Intn(3) - 1)
			if (d > 0 && v == math.MaxInt64) || (d < 0 && v == math.MinInt64) {
				d = 0
			}
			return itok(v + d)
		case 'u':
			v := udec(k)
			switch r.Intn(3) {
			case 0:
				if v > 0 {
					v--
				}
			case 1:
				if v < math.MaxUint64 {
					v++
				}
			}
			return utok(v)
		case 'f':
			if k == "fnan" {
				return "f0"
			}
			v := fdecode(k)
			switch r.Intn(4) {
			case 0:
				v = math.Nextafter(v, math.Inf(1))
			case 1:
				v = math.Nextafter(v, math.Inf(-1))
			}
			return fcode(v)
		case 's':
			s := sdecode(k)
			switch r.Intn(5) {
			case 0:
				s = strings.ToUpper(s)
			case 1:
				s = strings.ToLower(s)
			case 2:
				s += "a"
			}
			return stok(s)
		}
	}
	if dom == "fnan" {
		return "f0"
	}
	if dom[0] == 'f' && pct(r, 10) {
		return []string{"f9218868437227405312", "f-9218868437227405312"}[r.Intn(2)] // +Inf / -Inf probes
	}
	return dom
}

var cmpOps = []string{"eq", "ne", "lt", "le", "gt", "ge"}
var rxDom = []string{"a", "^a", "b$", "A|b", ".", "^$", "[", "(?i)a", "a.b", "k[0-5]$", "ä", "a+"}

func (e *Exec) pickLive(r *rand.Rand) int {
	us := e.spec.sortedLive()
	if len(us) == 0 {
		return 0
	}
	return us[r.Intn(len(us))]
}

func (e *Exec) pickSid(r *rand.Rand) int {
	if len(e.searches) == 0 {
		return -1
	}
	var ids []int
	for k := range e.searches {
		ids = append(ids, k)
	}
	sort.Ints(ids)
	// prefer recent searches
	if pct(r, 60) {
		return ids[len(ids)-1]
	}
	return ids[r.Intn(len(ids))]
}

func (e *Exec) genField(r *rand.Rand) int {
	if pct(r, 3) {
		return []int{99, 98}[r.Intn(2)]
	}
	// prefer indexed fields half of the time
	if pct(r, 50) {
		var ix []int
		for i := 0; i < NF; i++ {
			if e.cfg.indexed(i) {
				ix = append(ix, i)
			}
		}
		if len(ix) > 0 {
			return ix[r.Intn(len(ix))]
		}
	}
	return r.Intn(NF)
}

func (e *Exec) genCmp(r *rand.Rand) string {
	fld := e.genField(r)
	kf := fld
	if kf >= NF {
		kf = shape.FA
	}
	op := cmpOps[r.Intn(len(cmpOps))]
	probe := probeFor(r, e, kf)
	if shape.Kinds[kf] == 's' && pct(r, 25) {
		op = "rx"
		probe = stok(rxDom[r.Intn(len(rxDom))])
	} else if pct(r, 2) {
		op = "rx"
	}
	if pct(r, 3) {
		op = "bad"
	}
	if pct(r, 4) { // mistyped probe
		probe = []string{"i1", "u1", "f0", "s61"}[r.Intn(4)]
	}
	native := ""
	if pct(r, 40) {
		native = " native"
	}
	return fmt.Sprintf("%d %s %s%s", fld, op, probe, native)
}

// stale: the oracle's match set of a search contains an object deleted since
func (e *Exec) stale(sid int) bool {
	sr := e.spec.results[sid]
	if sr == nil {
		return false
	}
	for _, u := range sr.us {
		if _, ok := e.spec.live[u]; !ok {
			return true
		}
	}
	return false
}

// detSid: whether collect order of a search is a function of the history
func (e *Exec) collectMode(sid int, lim int64) int {
	s := e.searches[sid]
	if s == nil || s.det {
		return 0
	}
	if lim >= 0 || s.limited {
		// a limit (also the one left by an earlier Collect) picks an order-dependent subset
		s.limited = true
		return 2
	}
	return 1
}

var nextSid int

func sweepIf(r *rand.Rand, p Profile, ls ...string) []string {
	if pct(r, p.Sweep) {
		ls = append(ls, "count", "all", "dump", "fs")
	}
	return ls
}

// GenOp produces the next op line(s) for the running history
func (e *Exec) GenOp(r *rand.Rand, p Profile) []string {
	ls := e.genOp(r, p)
	if e.cacheUnknown {
		// (the content of the cache is not a function of the history any more: no file is removed or damaged from
		// outside in the rest of this history)
		for _, l := range ls {
			if strings.HasPrefix(l, "rmfile") || strings.HasPrefix(l, "corrupt") || strings.HasPrefix(l, "truncfile") {
				return []string{"count"}
			}
		}
	}
	return ls
}

func (e *Exec) genOp(r *rand.Rand, p Profile) []string {
	total := 0
	keys := make([]string, 0, len(p.W))
	for k := range p.W {
		keys = append(keys, k)
	}
	sort.Strings(keys)
	for _, k := range keys {
		total += p.W[k]
	}
	x := r.Intn(total)
	kind := ""
	for _, k := range keys {
		if x < p.W[k] {
			kind = k
			break
		}
		x -= p.W[k]
	}
	sweep := func(ls ...string) []string {
		if p.Name == "C06" && (strings.HasPrefix(ls[0], "ins") || strings.HasPrefix(ls[0], "many") || strings.HasPrefix(ls[0], "bulk")) {
			// full observation sweep before and after every write call
			return append(append([]string{"count", "all", "dump"}, ls...), "count", "all", "dump", "control", "fs")
		}
		if pct(r, p.Sweep) {
			ls = append(ls, "count", "all", "dump", "fs")
		}
		return ls
	}
	if kind == "crashwrite" && e.cfg.Async {
		kind = "snapscn"
	}
	switch kind {
	case "snapscn":
		// writes left pending, then a call that commits the schema (or not), then THE PROCESS DIES
		// (snapcheck: a fresh process on a copy of the directory must be told, or find index = files)
		var out []string
		for i, n := 0, 1+r.Intn(3); i < n; i++ {
			f := genRec(r, e.cfg)
			if u := e.pickLive(r); u != 0 && pct(r, 40) {
				f.U = u
			}
			out = append(out, "ins "+f.String())
		}
		switch r.Intn(6) {
		case 0:
			out = append(out, "commit")
		case 1:
			if u := e.pickLive(r); u != 0 {
				if f, ok := e.spec.live[u]; ok && !e.spec.off {
					f.U = u
					out = append(out, "flush1c "+f.String())
				}
			}
		case 2:
			if u := e.pickLive(r); u != 0 {
				out = append(out, fmt.Sprintf("del %d", u))
			}
		case 3:
			out = append(out, "create")
		case 4:
			out = append(out, "flushall")
		}
		return append(out, "snapcheck")
	case "ins":
		f := genRec(r, e.cfg)
		if pct(r, 3) && p.Name != "golden" {
			f = genBad(r, f)
		}
		if pct(r, 6) && p.Name != "golden" && !e.spec.off {
			// a NEW object whose identifier the application chose (Object.Initialize), upper case one time out of three
			f.U = len(e.uu)
		}
		return sweep("ins " + f.String())
	case "crashwrite":
		// the process dies at the k-th mutating file operation of a mutating call; the
		// directory is then reopened, checked, repaired and swept
		var w string
		switch x := r.Intn(10); {
		case x < 3 || len(e.spec.live) == 0:
			w = "ins " + genRec(r, e.cfg).String()
		case x < 6:
			f := genRec(r, e.cfg)
			f.U = e.pickLive(r)
			w = "ins " + f.String()
		case x < 7:
			w = fmt.Sprintf("del %d", e.pickLive(r))
		case x < 8:
			f := genRec(r, e.cfg)
			f.U = e.pickLive(r)
			w = "many " + genRec(r, e.cfg).String() + " " + f.String() + " " + genRec(r, e.cfg).String()
		case x < 9:
			w = "delall"
		default:
			w = "commit"
		}
		return []string{fmt.Sprintf("crashat %d", r.Intn(7)), w, "schema", "control", "count", "all", "dump", "fs",
			"repair", "control", "count", "all", "dump", "fs"}
	case "failwrite":
		// a single storage fault at the k-th mutating file operation of a write call, then
		// Control / Repair / Control and the sweep
		var w []string
		if pct(r, 50) || len(e.spec.live) == 0 {
			w = []string{"ins " + genRec(r, e.cfg).String()}
		} else {
			f := genRec(r, e.cfg)
			f.U = e.pickLive(r)
			w = []string{"ins " + f.String()}
		}
		if pct(r, 15) {
			w = []string{"many " + genRec(r, e.cfg).String() + " " + genRec(r, e.cfg).String()}
		}
		out := []string{"count", "all", "dump", fmt.Sprintf("failat %d", r.Intn(5))}
		out = append(out, w...)
		return append(out, "count", "all", "dump", "control", "fs", "repair", "control", "count", "all", "dump", "fs")
	case "upd":
		u := e.pickLive(r)
		if u == 0 {
			return e.GenOp(r, p)
		}
		f := genRec(r, e.cfg)
		if pct(r, 45) { // change only a few fields of the stored value
			cur := e.spec.live[u]
			nf := cur
			for k := 0; k < 1+r.Intn(3); k++ {
				i := r.Intn(NF)
				if cur.R%4&1 == 1 && i >= shape.FNX && i <= shape.FNDW {
					continue
				}
				if cur.R%4&2 == 2 && (i == shape.FNDZ || i == shape.FNDW) {
					continue
				}
				nf.K[i] = f.K[i]
			}
			f = nf
		}
		f.U = u
		if pct(r, 3) && p.Name != "golden" {
			f = genBad(r, f)
		}
		return sweep("ins " + f.String())
	case "del":
		u := e.pickLive(r)
		if u == 0 || pct(r, 10) {
			u = len(e.uu) + r.Intn(2) // absent id
		}
		return sweep(fmt.Sprintf("del %d", u))
	case "get":
		u := e.pickLive(r)
		if u == 0 {
			return e.GenOp(r, p)
		}
		return []string{fmt.Sprintf("%s %d", []string{"get", "getu"}[r.Intn(2)], u)}
	case "getabs":
		// repeated lookups of an absent / deleted id
		u := len(e.uu) + r.Intn(2)
		if pct(r, 50) {
			for k := 1; k < len(e.uu); k++ {
				if _, ok := e.spec.live[k]; !ok {
					u = k
					break
				}
			}
		}
		op := []string{"get", "getu"}[r.Intn(2)]
		return []string{fmt.Sprintf("%s %d", op, u), fmt.Sprintf("%s %d", op, u), fmt.Sprintf("exist %d", u)}
	case "exist":
		u := e.pickLive(r)
		if u == 0 {
			u = 1
		}
		return []string{fmt.Sprintf("exist %d", u)}
	case "count":
		return []string{"count"}
	case "all":
		if pct(r, 30) {
			return []string{"all assign"}
		}
		return []string{"all"}
	case "search":
		nextSid++
		return []string{fmt.Sprintf("search %d %s", nextSid, e.genCmp(r))}
	case "chain":
		// C13 / C02 / C20: a broad first comparison, one or two And refinements ending on an INDEXED
		// field (a broad pattern on string fields 40% of the time), then Collect in exact order
		// with a random limit / direction, and One
		var ix []int
		for i := 0; i < NF; i++ {
			if e.cfg.indexed(i) {
				ix = append(ix, i)
			}
		}
		if len(ix) == 0 {
			return e.GenOp(r, Profile{Name: p.Name, W: map[string]int{"search": 1}, MaxOps: p.MaxOps, Sweep: p.Sweep})
		}
		broad := func(f int) string {
			if shape.Kinds[f] == 's' && pct(r, 40) {
				return fmt.Sprintf("%d rx %s", f, stok([]string{"", ".", "^[a-zA-Zk]", "a|b|k|z", "[^z]"}[r.Intn(5)]))
			}
			return fmt.Sprintf("%d %s %s", f, []string{"ge", "le", "ne", "gt", "lt"}[r.Intn(5)], probeFor(r, e, f))
		}
		var ls []string
		nextSid++
		f0 := r.Intn(NF)
		if pct(r, 50) {
			f0 = ix[r.Intn(len(ix))]
		}
		ls = append(ls, fmt.Sprintf("search %d %s", nextSid, broad(f0)))
		for k := 0; k < 1+r.Intn(2); k++ {
			nextSid++
			ls = append(ls, fmt.Sprintf("and %d %d %s", nextSid, nextSid-1, broad(ix[r.Intn(len(ix))])))
		}
		lim := int64(-1)
		if pct(r, 50) {
			lim = int64(r.Intn(4))
		}
		rev := 0
		if pct(r, 40) {
			rev = 1
		}
		ls = append(ls, fmt.Sprintf("collect %d %d %d @mode", nextSid, lim, rev))
		if pct(r, 40) {
			ls = append(ls, fmt.Sprintf("one %d @mode", nextSid))
		}
		return ls
	case "kept":
		// a search value is KEPT while the collection changes under it, then used (and refined, and used
		// again): it denotes what matched when it was evaluated. Directed at every operator of an indexed
		// field with duplicates of the probed key, a write that moves index entries (insertion before or
		// inside the matched range, deletion, update that moves an entry), then Collect of the kept value
		// itself after it has served as the base of a refinement
		fld := e.genField(r) % NF
		var ix []int
		for i := 0; i < NF; i++ {
			if e.cfg.indexed(i) {
				ix = append(ix, i)
			}
		}
		if len(ix) > 0 && pct(r, 75) {
			fld = ix[r.Intn(len(ix))]
		}
		det := e.cfg.indexed(fld)
		u := e.pickLive(r)
		if u == 0 || e.spec.off {
			return e.GenOp(r, p)
		}
		base, ok := e.spec.live[u]
		if !ok {
			return e.GenOp(r, p)
		}
		probe := base.K[fld]
		var out []string
		for i := r.Intn(3); i > 0; i-- {
			out = append(out, "ins "+withKey(genRec(r, e.cfg), fld, probe).String())
		}
		nextSid++
		s1 := nextSid
		out = append(out, fmt.Sprintf("search %d %d %s %s", s1, fld, cmpOps[r.Intn(len(cmpOps))], probe))
		deleted := false
		for i := 1 + r.Intn(2); i > 0; i-- {
			switch x := r.Intn(4); {
			case x == 0:
				out = append(out, "ins "+genRec(r, e.cfg).String())
			case x == 1:
				out = append(out, "ins "+withKey(genRec(r, e.cfg), fld, probe).String())
			case x == 2 && det:
				out = append(out, fmt.Sprintf("del %d", e.pickLive(r)))
				deleted = true
			default:
				v := e.pickLive(r)
				if g, ok := e.spec.live[v]; ok {
					g.U = v
					out = append(out, "ins "+withKey(g, fld, genRec(r, e.cfg).K[fld]).String())
				}
			}
		}
		mode := 1
		if det {
			mode = 0
		}
		if pct(r, 60) {
			f2 := fld
			if len(ix) > 0 && pct(r, 60) {
				f2 = ix[r.Intn(len(ix))]
			}
			nextSid++
			out = append(out, fmt.Sprintf("and %d %d %d %s %s", nextSid, s1, f2, cmpOps[r.Intn(len(cmpOps))], probeFor(r, e, f2)))
			out = append(out, fmt.Sprintf("len %d", nextSid))
			if e.cfg.indexed(f2) && det {
				out = append(out, fmt.Sprintf("collect %d -1 0 0", nextSid))
			} else if !deleted {
				out = append(out, fmt.Sprintf("collect %d -1 0 1", nextSid))
			}
		}
		return append(out, fmt.Sprintf("len %d", s1), fmt.Sprintf("collect %d -1 %d %d", s1, r.Intn(2), mode))
	case "stalerefine":
		// a kept search on an integer field, then one of its objects is updated on THAT field, then the
		// kept value is refined on the same field (the range idiom, later), then collected: the refinement
		// is evaluated on what the objects hold NOW
		fld := shape.FA
		u := e.pickLive(r)
		if u == 0 {
			return e.GenOp(r, p)
		}
		f, ok := e.spec.live[u]
		if !ok || e.spec.off {
			return e.GenOp(r, p)
		}
		f.U = u
		nextSid++
		s1 := nextSid
		out := []string{fmt.Sprintf("search %d %d ge i-200 native", s1, fld)}
		f.K[fld] = fmt.Sprintf("i%d", []int{-100, -3, 7, 100, 120}[r.Intn(5)])
		out = append(out, "ins "+f.String())
		if pct(r, 40) {
			out = append(out, "ins "+genRec(r, e.cfg).String())
		}
		nextSid++
		out = append(out, fmt.Sprintf("and %d %d %d %s i%d native", nextSid, s1, fld, []string{"lt", "le", "gt", "ge", "eq"}[r.Intn(5)], []int{-3, 5, 7, 100}[r.Intn(4)]))
		return append(out, fmt.Sprintf("len %d", nextSid), fmt.Sprintf("collect %d -1 0 1", nextSid))
	case "and", "or":
		old := e.pickSid(r)
		if old < 0 {
			return e.GenOp(r, p)
		}
		nextSid++
		return []string{fmt.Sprintf("%s %d %d %s", kind, nextSid, old, e.genCmp(r))}
	case "len":
		sid := e.pickSid(r)
		if sid < 0 {
			return e.GenOp(r, p)
		}
		if pct(r, 40) {
			// Expects / ExpectsZeroOrN with the right count, one off, or zero; then what the value still
			// denotes (a failed expectation makes every later use fail)
			n := 0
			if sr := e.spec.results[sid]; sr != nil {
				n = len(sr.us)
			}
			n += []int{0, 0, 1, -1, -n}[r.Intn(5)]
			if n < 0 {
				n = 0
			}
			out := []string{fmt.Sprintf("expects %d %d %d", sid, n, r.Intn(2)), fmt.Sprintf("len %d", sid)}
			if m := e.collectMode(sid, -1); m == 0 || !(e.stale(sid) || e.spec.off) {
				// (compared as a set, or by size only once an earlier limit has picked an order-dependent subset)
				if m == 0 {
					m = 1
				}
				out = append(out, fmt.Sprintf("collect %d -1 0 %d", sid, m))
			}
			return out
		}
		return []string{fmt.Sprintf("len %d", sid)}
	case "collect":
		sid := e.pickSid(r)
		if sid < 0 {
			return e.GenOp(r, p)
		}
		lim := int64(-1)
		if pct(r, 45) {
			lim = int64(r.Intn(5))
		}
		rev := 0
		if pct(r, 35) {
			rev = 1
		}
		if e.collectMode(sid, lim) != 0 && (e.stale(sid) || e.spec.off) {
			// (with the harness's own map switched off -- faults, crashes -- staleness is unknown: same caution)
			// iteration order is Go map order and some object is gone: which read fails first
			// (and whether the limit is reached before it) is not a function of the history
			return []string{fmt.Sprintf("len %d", sid)}
		}
		return []string{fmt.Sprintf("collect %d %d %d %d", sid, lim, rev, e.collectMode(sid, lim))}
	case "one":
		sid := e.pickSid(r)
		if sid < 0 {
			return e.GenOp(r, p)
		}
		m := 0
		if !e.searches[sid].det {
			m = 2
			if e.stale(sid) || e.spec.off {
				return []string{fmt.Sprintf("len %d", sid)}
			}
		}
		return []string{fmt.Sprintf("one %d %d", sid, m)}
	case "sdel":
		sid := e.pickSid(r)
		if sid < 0 {
			return e.GenOp(r, p)
		}
		return sweep(fmt.Sprintf("sdel %d", sid))
	case "many", "bulk":
		n := r.Intn(6)
		var ms []string
		for i := 0; i < n; i++ {
			switch {
			case pct(r, 4):
				ms = append(ms, "OTHER")
			case pct(r, 4) && p.Name != "golden":
				// a member json refuses (NaN / Inf), at any position of the batch
				ms = append(ms, genBad(r, genRec(r, e.cfg)).String())
			case pct(r, 30) && len(e.spec.live) > 0:
				f := genRec(r, e.cfg)
				f.U = e.pickLive(r)
				ms = append(ms, f.String())
			default:
				ms = append(ms, genRec(r, e.cfg).String())
			}
		}
		if len(ms) > 1 && pct(r, 15) { // the same object twice
			ms = append(ms, ms[r.Intn(len(ms))])
		}
		if kind == "many" {
			return sweep("many " + strings.Join(ms, " "))
		}
		cs := []int{0, 1, 2, 3, len(ms), len(ms) + 1}[r.Intn(6)]
		if e.cfg.Async {
			// InsertOrUpdateBulk is several locked calls: a flusher STARTED by its first chunk
			// runs between chunks at the scheduler's whim. Start it before (the model evaluates
			// a newly started flusher once, after the whole call).
			return append([]string{"count"}, sweep(fmt.Sprintf("bulk %d %s", cs, strings.Join(ms, " ")))...)
		}
		return sweep(fmt.Sprintf("bulk %d %s", cs, strings.Join(ms, " ")))
	case "delall":
		return sweep("delall")
	case "reopen":
		if e.cfg.Async || p.Name == "C12" {
			// abandoning a handle is only defined for synchronous mode (C04)
			return sweep("close", "reopen")
		}
		return sweep("reopen")
	case "closereopen":
		return sweep("close", "reopen")
	case "reopenorder":
		// the whole index right before and right after a restart (Close or, in synchronous mode, none)
		if e.cfg.Async || p.Name == "C12" || pct(r, 40) {
			return []string{"count", "all", "dump", "close", "reopen", "count", "all", "dump"}
		}
		return []string{"count", "all", "dump", "reopen", "count", "all", "dump"}
	case "aidx":
		return []string{fmt.Sprintf("aidx %d", e.genField(r)%NF)}
	case "control":
		if e.cfg.Async || p.Name == "C12" {
			return []string{"flushall", "control"}
		}
		return []string{"control"}
	case "tick":
		return sweepIf(r, p, "tick")
	case "schema":
		return []string{"schema"}
	case "repair":
		if e.cfg.Async {
			return sweep("flushall", "repair", "control")
		}
		return sweep("repair", "control")
	case "recreate":
		if (p.Name == "C17" || p.Name == "C10") && pct(r, 15) {
			// asynchronous writes switched off through a non-nil Async{Enable:false}, then on again: the
			// routine must be running again: a write made then reaches the disk within the timeout
			f := genRec(r, e.cfg)
			return []string{"create cache=1 async=0 astruct=1", "tick", "create cache=1 async=1 thr=3 to=1", "ins " + f.String(), "tick", "tick", "fs", "count", "all"}
		}
		// Create again: same schema, or a switch of cache / async settings
		kv := fmt.Sprintf("cache=%d", r.Intn(2))
		if (p.Name == "C17" || p.Name == "C10" || p.Name == "C01") && pct(r, 60) {
			if pct(r, 50) {
				kv += fmt.Sprintf(" async=1 thr=%d to=%d", 1+r.Intn(4), 1+r.Intn(3))
			} else {
				kv += fmt.Sprintf(" async=0 astruct=%d", r.Intn(2))
			}
		}
		if pct(r, 40) {
			// ... and what a new process would find right after that Create
			return append(sweep("create "+kv, "count", "all"), "snapcheck")
		}
		return sweep("create "+kv, "count", "all")
	case "recreatebad":
		// re-creation with another extension or other constraints must be refused
		if pct(r, 40) {
			kv := ""
			if pct(r, 50) {
				kv = fmt.Sprintf(" cache=%d async=0", r.Intn(2))
			}
			return []string{"dirhash", "create ext=" + stok(".other") + kv, "dirhash"}
		}
		// one constraint flag of one field toggled (index, unique, and for strings upper, lower),
		// together with any switch of the cache / asynchronous-writes settings: the call must be
		// refused and must not even flush pending writes
		i := r.Intn(NF)
		fl := []byte(e.cfg.Cons[i])
		j := r.Intn(2)
		if shape.Kinds[i] == 's' {
			j = r.Intn(4)
		}
		fl[j] = '1' + '0' - fl[j]
		kv := ""
		if pct(r, 60) {
			kv = fmt.Sprintf(" cache=%d", r.Intn(2))
			if pct(r, 60) {
				kv += " async=0"
			} else {
				kv += fmt.Sprintf(" async=1 thr=%d to=%d", 1+r.Intn(4), 1+r.Intn(3))
			}
		}
		return []string{"dirhash", fmt.Sprintf("create cons=%d:%s%s", i, string(fl), kv), "dirhash"}
	case "variant":
		// the same directory opened through a Go struct whose shape changed: every operation
		// must be refused and every file must stay byte-identical
		k := 2 + r.Intn(3)
		out := []string{"close"}
		u := e.pickLive(r)
		if pct(r, 35) {
			// ... also when the directory is, at the same time, out of step with its index (a file
			// added or removed from outside): the structure error comes first and keeps coming
			if u != 0 && pct(r, 50) {
				out = append(out, fmt.Sprintf("rmfile %d", u))
			} else {
				af := genRec(r, e.cfg)
				af.U = len(e.uu)
				af.K[shape.FTM], af.K[shape.FVM] = "i0", "i0"
				cf, _ := e.spec.canon(af)
				out = append(out, "addfile "+cf.String())
			}
		}
		out = append(out, "dirhash", fmt.Sprintf("vopen %d", k))
		nextSid++
		if u == 0 {
			u = 1
		}
		f := genRec(r, e.cfg)
		g2 := genRec(r, e.cfg)
		g2.U = u
		battery := []string{"schema", "ins " + f.String(), "ins " + g2.String(), "many " + f.String() + " " + g2.String(),
			fmt.Sprintf("get %d", u), fmt.Sprintf("getu %d", u), fmt.Sprintf("exist %d", u), "count", "all",
			fmt.Sprintf("search %d %s", nextSid, e.genCmp(r)), fmt.Sprintf("aidx %d", r.Intn(NF)), "commit", "repair",
			"create", fmt.Sprintf("del %d", u), "delall", "flushall", "flushallc", "control", "tick", "tick", "tick", "close"}
		r.Shuffle(len(battery)-1, func(i, j int) { battery[i], battery[j] = battery[j], battery[i] })
		out = append(out, battery[:6+r.Intn(len(battery)-6)]...)
		back := "vopen 1"
		if pct(r, 30) {
			back = "vopen 5"
		}
		return append(out, "close", "dirhash", back, "count", "all", "dump", "fs")
	case "rmctl":
		// the file of a stored (flushed) object disappears; with or without other writes pending,
		// Control must report it
		u := e.pickLive(r)
		if u == 0 {
			return e.GenOp(r, p)
		}
		out := []string{}
		if e.cfg.Async {
			out = append(out, "flushall")
		}
		out = append(out, "count", fmt.Sprintf("rmfile %d", u))
		if pct(r, 60) && !e.cfg.Async {
			out = append(out, "ins "+genRec(r, e.cfg).String())
		}
		if e.cfg.Async && pct(r, 60) {
			// another object is pending while Control runs (its write stays in the queue: a commit does not flush)
			if v := e.pickLive(r); v != 0 && v != u {
				if f, ok := e.spec.live[v]; ok && !e.spec.off {
					f.U = v
					return append(out, "ins "+f.String(), "control")
				}
			}
		}
		return append(out, "control")
	case "repairabandon":
		// files removed and added from outside (any mix, also more removed than added), Repair,
		// Control, a sweep; then the handle is ABANDONED and a new one opened: synchronous mode commits
		// in every mutating call, Repair included
		var out []string
		nrm, nadd := r.Intn(3), r.Intn(3)
		if nrm+nadd == 0 {
			nrm = 1
		}
		picked := map[int]bool{}
		for i := 0; i < nrm; i++ {
			if u := e.pickLive(r); u != 0 && !picked[u] {
				picked[u] = true
				out = append(out, fmt.Sprintf("rmfile %d", u))
			}
		}
		for i := 0; i < nadd; i++ {
			f := genRec(r, e.cfg)
			f.U = len(e.uu) + i
			f.K[shape.FTM], f.K[shape.FVM] = "i0", "i0"
			cf, _ := e.spec.canon(f)
			out = append(out, "addfile "+cf.String())
		}
		if len(out) == 0 {
			return e.GenOp(r, p)
		}
		if e.cfg.Async {
			// (an asynchronous handle is closed first: its routine would go on writing)
			return append(out, "flushall", "repair", "control", "count", "all", "dump", "fs", "close", "reopen", "count", "all", "dump", "control")
		}
		return append(out, "repair", "control", "count", "all", "dump", "fs", "reopen", "count", "all", "dump", "control")
	case "fault":
		switch r.Intn(7) {
		case 0, 1:
			u := e.pickLive(r)
			if u == 0 {
				return e.GenOp(r, p)
			}
			return []string{fmt.Sprintf("rmfile %d", u)}
		case 2, 3:
			f := genRec(r, e.cfg)
			f.U = len(e.uu) + r.Intn(2)
			f.K[shape.FTM], f.K[shape.FVM] = "i0", "i0"
			cf, _ := e.spec.canon(f)
			return []string{"addfile " + cf.String()}
		case 4:
			u := e.pickLive(r)
			if u == 0 {
				return e.GenOp(r, p)
			}
			if pct(r, 50) {
				// one entry of one field index only
				for _, i := range r.Perm(NF) {
					if e.cfg.indexed(i) {
						return []string{"close", "reopen", fmt.Sprintf("rmfentry %d %d", u, i)}
					}
				}
			}
			return []string{"close", "reopen", fmt.Sprintf("rmentry %d", u)}
		case 5:
			return []string{"stray " + []string{"nodot", "dot", "subdir"}[r.Intn(3)]}
		default:
			if pct(r, 30) {
				return []string{"close", "reopen", "rmschema", "schema"}
			}
			u := e.pickLive(r)
			if u == 0 {
				return e.GenOp(r, p)
			}
			return []string{fmt.Sprintf("%s %d", []string{"corrupt", "truncfile"}[r.Intn(2)], u)}
		}
	case "commit":
		if u := e.pickLive(r); u != 0 && pct(r, 30) && !e.spec.off && e.spec.crashCtx == "" {
			// single-object flush of an object holding the last accepted value (known only while the
			// harness's own map is in step: no fault, crash or outside modification so far)
			if f, ok := e.spec.live[u]; ok {
				f.U = u
				return []string{[]string{"flush1", "flush1c"}[r.Intn(2)] + " " + f.String()}
			}
		}
		switch r.Intn(5) {
		case 0:
			return []string{"commit"}
		case 1:
			return []string{"flushall"}
		case 2:
			return []string{"flushallc"}
		case 3:
			// what FlushAllAndCommit promises, observed at once on the directory
			return []string{"flushallc", "fs"}
		default:
			// ... also when an earlier FlushAll left nothing pending but the index uncommitted
			return []string{"flushall", "flushallc", "fs"}
		}
	}
	return []string{"count"}
}
