package main

// Descriptor correspondence (field_desc.go / constraints.go against coq/Model/Descr.v), C16 + C17.
// Struct types are built at run time (reflect.StructOf) from random recipes: nesting by value and
// behind pointers, pointers to scalars and to pointers, time.Time by value and by pointer,
// unexported fields, containers, named types, and `sod` tags listing known and unknown options in
// any order, with repetitions, empty items and blanks.  For every type the file written here holds
//   T <type tree read off the live reflect.Type>      D <descriptor> ... in slice order
//   V <a random value of the type, some pointers nil> K <ids of its string leaves>
//   X <path> <ids of the leaves changed by the constraint walk along that path>
//   P <type tree of a variant>  C <CompatibleWith verdict> <FieldsCompatibleWith verdict>
// The OCaml driver (-descr) evaluates the extracted model on the same trees and reports DIFF lines.
// Independent oracles (lines "! C16" / "! C17") are computed here without the model.

import (
	"bufio"
	"encoding/hex"
	"errors"
	"fmt"
	"math/rand"
	"reflect"
	"sort"
	"strings"
	"time"

	"github.com/0xrawsec/sod"
	"verif/harness/shape"
)

type recipe struct {
	kind   string // leaf, ptr, struct, time
	leaf   reflect.Type
	elem   *recipe
	fields []rfield
}

type rfield struct {
	name     string
	exported bool
	tag      string
	hasTag   bool
	other    string // another key in the struct tag
	t        *recipe
}

var leafTypes = []reflect.Type{
	reflect.TypeOf(""), reflect.TypeOf(""), reflect.TypeOf(""), reflect.TypeOf(int(0)), reflect.TypeOf(int64(0)), reflect.TypeOf(uint8(0)),
	reflect.TypeOf(uint64(0)), reflect.TypeOf(float64(0)), reflect.TypeOf(float32(0)), reflect.TypeOf(true),
	reflect.TypeOf([]string{}), reflect.TypeOf(map[string]int{}), reflect.TypeOf([2]int{}),
	reflect.TypeOf(shape.Severity(0)), reflect.TypeOf(TagSev("")), reflect.TypeOf(time.Duration(0)),
	reflect.TypeOf((*interface{})(nil)).Elem(), reflect.TypeOf([]byte{}),
}

var tagOpts = []string{"index", "unique", "upper", "lower", "index", "unique", "upper", "lower", "upper", "lower", "", " index", "Upper", "uniq", "lower ", "indexunique"}

func genTag(r *rand.Rand) (string, bool) {
	switch r.Intn(6) {
	case 0:
		return "", false
	case 1:
		return "", true
	}
	n := 1 + r.Intn(4)
	parts := make([]string, n)
	for i := range parts {
		parts[i] = tagOpts[r.Intn(len(tagOpts))]
	}
	return strings.Join(parts, ","), true
}

var expNames = []string{"A", "B", "Cc", "Name", "X1", "Val", "In", "Pt", "T0", "Zed", "Ab", "AB", "Aa"}
var unexpNames = []string{"u", "hid", "x1"}

func genRecipe(r *rand.Rand, depth int) *recipe {
	k := r.Intn(100)
	switch {
	case depth > 0 && k < 18:
		return genStruct(r, depth-1)
	case depth > 0 && k < 32:
		return &recipe{kind: "ptr", elem: genStruct(r, depth-1)}
	case k < 40:
		return &recipe{kind: "time"}
	case k < 45:
		return &recipe{kind: "ptr", elem: &recipe{kind: "time"}}
	case k < 52:
		return &recipe{kind: "ptr", elem: &recipe{kind: "leaf", leaf: leafTypes[r.Intn(len(leafTypes))]}}
	case depth > 0 && k < 56:
		return &recipe{kind: "ptr", elem: &recipe{kind: "ptr", elem: genStruct(r, depth-1)}}
	}
	if r.Intn(2) == 0 {
		return &recipe{kind: "leaf", leaf: leafTypes[r.Intn(3)]} // string
	}
	return &recipe{kind: "leaf", leaf: leafTypes[r.Intn(len(leafTypes))]}
}

func genStruct(r *rand.Rand, depth int) *recipe {
	n := 1 + r.Intn(5)
	rc := &recipe{kind: "struct"}
	used := map[string]bool{}
	for i := 0; i < n; i++ {
		var f rfield
		if r.Intn(7) == 0 {
			f.name = unexpNames[r.Intn(len(unexpNames))]
		} else {
			f.name = expNames[r.Intn(len(expNames))]
			f.exported = true
		}
		if used[f.name] {
			continue
		}
		used[f.name] = true
		f.tag, f.hasTag = genTag(r)
		if r.Intn(4) == 0 {
			f.other = `json:"` + strings.ToLower(f.name) + `,omitempty"`
		}
		f.t = genRecipe(r, depth)
		rc.fields = append(rc.fields, f)
	}
	return rc
}

func (rc *recipe) clone() *recipe {
	if rc == nil {
		return nil
	}
	c := *rc
	c.elem = rc.elem.clone()
	c.fields = make([]rfield, len(rc.fields))
	for i, f := range rc.fields {
		c.fields[i] = f
		c.fields[i].t = f.t.clone()
	}
	return &c
}

// structs reachable in a recipe (for mutations)
func (rc *recipe) structs(out *[]*recipe) {
	if rc == nil {
		return
	}
	if rc.kind == "struct" {
		*out = append(*out, rc)
		for _, f := range rc.fields {
			f.t.structs(out)
		}
	}
	rc.elem.structs(out)
}

func mutate(r *rand.Rand, rc *recipe) (*recipe, string) {
	c := rc.clone()
	var ss []*recipe
	c.structs(&ss)
	s := ss[r.Intn(len(ss))]
	i := r.Intn(len(s.fields))
	switch r.Intn(9) {
	case 0:
		return c, "same"
	case 1, 7:
		s.fields[i].tag, s.fields[i].hasTag = genTag(r)
		return c, "tag"
	case 2, 8:
		s.fields[i].t = genRecipe(r, 1)
		return c, "type"
	case 3:
		if len(s.fields) > 1 {
			s.fields = append(s.fields[:i:i], s.fields[i+1:]...)
		}
		return c, "drop"
	case 4:
		nf := rfield{name: "Extra", exported: true, t: &recipe{kind: "leaf", leaf: leafTypes[r.Intn(len(leafTypes))]}}
		for _, f := range s.fields {
			if f.name == nf.name {
				return c, "same"
			}
		}
		s.fields = append(s.fields, nf)
		return c, "add"
	case 5:
		r.Shuffle(len(s.fields), func(a, b int) { s.fields[a], s.fields[b] = s.fields[b], s.fields[a] })
		return c, "reorder"
	default:
		// the same options in another order, some repeated: constraints must not change
		if s.fields[i].hasTag {
			p := strings.Split(s.fields[i].tag, ",")
			r.Shuffle(len(p), func(a, b int) { p[a], p[b] = p[b], p[a] })
			p = append(p, p[r.Intn(len(p))])
			s.fields[i].tag = strings.Join(p, ",")
		}
		return c, "permute"
	}
}

func (rc *recipe) build() reflect.Type {
	switch rc.kind {
	case "leaf":
		return rc.leaf
	case "time":
		return reflect.TypeOf(time.Time{})
	case "ptr":
		return reflect.PtrTo(rc.elem.build())
	}
	fs := make([]reflect.StructField, 0, len(rc.fields))
	for _, f := range rc.fields {
		sf := reflect.StructField{Name: f.name, Type: f.t.build()}
		if !f.exported {
			sf.PkgPath = "main"
		}
		parts := []string{}
		if f.other != "" && len(f.name)%2 == 0 {
			parts = append(parts, f.other)
		}
		if f.hasTag {
			parts = append(parts, fmt.Sprintf("sod:%q", f.tag))
		}
		if f.other != "" && len(f.name)%2 == 1 {
			parts = append(parts, f.other)
		}
		sf.Tag = reflect.StructTag(strings.Join(parts, " "))
		fs = append(fs, sf)
	}
	return reflect.StructOf(fs)
}

func hx(s string) string { return "x" + hex.EncodeToString([]byte(s)) }

var timeT = reflect.TypeOf(time.Time{})

// the type tree the model works on, read off the live type
func tyTree(t reflect.Type, depth int) string {
	if depth > 40 {
		return "(L " + hx(t.String()) + ")"
	}
	switch t.Kind() {
	case reflect.Ptr:
		return "(P " + hx(t.String()) + " " + tyTree(t.Elem(), depth+1) + ")"
	case reflect.Struct:
		var b strings.Builder
		it := 0
		if t.AssignableTo(timeT) {
			it = 1
		}
		fmt.Fprintf(&b, "(S %s %d", hx(t.String()), it)
		for i := 0; i < t.NumField(); i++ {
			f := t.Field(i)
			ex := 0
			if f.IsExported() {
				ex = 1
			}
			tag, _ := f.Tag.Lookup("sod")
			fmt.Fprintf(&b, " (F %s %d %s %s)", hx(f.Name), ex, hx(tag), tyTree(f.Type, depth+1))
		}
		b.WriteString(")")
		return b.String()
	}
	return "(L " + hx(t.String()) + ")"
}

// fills the settable string leaves with mixed-case text, allocates pointers (some stay nil)
func fill(r *rand.Rand, v reflect.Value, n *int) {
	switch v.Kind() {
	case reflect.Ptr:
		if v.CanSet() && r.Intn(10) < 8 {
			v.Set(reflect.New(v.Type().Elem()))
		}
		if !v.IsNil() {
			fill(r, v.Elem(), n)
		}
	case reflect.Struct:
		if v.Type().AssignableTo(timeT) {
			return
		}
		for i := 0; i < v.NumField(); i++ {
			fill(r, v.Field(i), n)
		}
	case reflect.String:
		if v.CanSet() {
			*n++
			v.SetString(fmt.Sprintf("aB%dcD", *n))
		}
	}
}

// value tree + contents of the string leaves, ids in walk order
func valTree(v reflect.Value, id *int, strs map[int]string, depth int) string {
	t := v.Type()
	if depth > 40 {
		*id++
		return fmt.Sprintf("(l %s %d)", hx(t.String()), *id)
	}
	switch v.Kind() {
	case reflect.Ptr:
		if v.IsNil() {
			return "(n " + hx(t.String()) + ")"
		}
		return "(p " + hx(t.String()) + " " + valTree(v.Elem(), id, strs, depth+1) + ")"
	case reflect.Struct:
		var b strings.Builder
		fmt.Fprintf(&b, "(s %s", hx(t.String()))
		for i := 0; i < v.NumField(); i++ {
			fmt.Fprintf(&b, " (f %s %s)", hx(t.Field(i).Name), valTree(v.Field(i), id, strs, depth+1))
		}
		b.WriteString(")")
		return b.String()
	}
	*id++
	if v.Kind() == reflect.String {
		strs[*id] = v.String()
	}
	return fmt.Sprintf("(l %s %d)", hx(t.String()), *id)
}

func deepCopy(v reflect.Value) reflect.Value {
	// v is a non-nil pointer to a struct built by fill: copy what fill could set
	out := reflect.New(v.Type().Elem())
	var cp func(dst, src reflect.Value)
	cp = func(dst, src reflect.Value) {
		switch src.Kind() {
		case reflect.Ptr:
			if src.IsNil() || !dst.CanSet() {
				return
			}
			dst.Set(reflect.New(src.Type().Elem()))
			cp(dst.Elem(), src.Elem())
		case reflect.Struct:
			if src.Type().AssignableTo(timeT) {
				return
			}
			for i := 0; i < src.NumField(); i++ {
				cp(dst.Field(i), src.Field(i))
			}
		case reflect.String:
			if dst.CanSet() {
				dst.SetString(src.String())
			}
		}
	}
	cp(out.Elem(), v.Elem())
	return out
}

func consBits(c sod.Constraints) string {
	b := []byte("----")
	if c.Index {
		b[0] = 'i'
	}
	if c.Unique {
		b[1] = 'u'
	}
	if c.Upper {
		b[2] = 'U'
	}
	if c.Lower {
		b[3] = 'L'
	}
	return string(b)
}

func wantConsExact(tag string) sod.Constraints {
	var c sod.Constraints
	for _, o := range strings.Split(tag, ",") {
		switch o {
		case "index":
			c.Index = true
		case "unique":
			c.Unique, c.Index = true, true
		case "upper":
			c.Upper = true
		case "lower":
			c.Lower = true
		}
	}
	return c
}

func toMap(fds []sod.FieldDescriptor) sod.FieldDescMap {
	m := sod.FieldDescMap{}
	for _, fd := range fds {
		m[fd.Path] = fd
	}
	return m
}

func verdict(err error) string {
	switch {
	case err == nil:
		return "ok"
	case errors.Is(err, sod.ErrUnkownField):
		return "unknown"
	case errors.Is(err, sod.ErrFieldDescModif):
		return "modif"
	}
	return "other:" + err.Error()
}

// model-free reading of what a type's descriptors must be: exported leaves, tags as sets
func wantDescr(t reflect.Type, path string, out map[string]string) {
	if t.Kind() == reflect.Ptr && t.Elem().Kind() == reflect.Struct {
		t = t.Elem()
	}
	if t.Kind() != reflect.Struct {
		return
	}
	for i := 0; i < t.NumField(); i++ {
		f := t.Field(i)
		if !f.IsExported() {
			continue
		}
		p := f.Name
		if path != "" {
			p = path + "." + f.Name
		}
		ft := f.Type
		switch {
		case ft.Kind() == reflect.Ptr && ft.Elem().Kind() == reflect.Struct:
			wantDescr(ft.Elem(), p, out)
		case ft.Kind() == reflect.Ptr:
			out[p] = ft.String() + "|" + consBits(sod.Constraints{})
		case ft.Kind() == reflect.Struct && ft != timeT:
			wantDescr(ft, p, out)
		default:
			tag, _ := f.Tag.Lookup("sod")
			out[p] = ft.String() + "|" + consBits(wantConsExact(tag))
		}
	}
}

func runDescr(w *bufio.Writer, seed int64, first, n int) {
	for i := first; i < first+n; i++ {
		r := rand.New(rand.NewSource(seed*7919 + int64(i)))
		rc := genStruct(r, 3)
		if len(rc.fields) == 0 {
			continue
		}
		T := rc.build()
		pv := reflect.New(T)
		fds := sod.VerifFieldDescriptorsOf(pv)
		fmt.Fprintf(w, "T %s\n", tyTree(pv.Type(), 0))
		for _, fd := range fds {
			fmt.Fprintf(w, "D %s %s %s\n", hx(fd.Path), hx(fd.Type), consBits(fd.Constraints))
		}
		// oracle: the descriptors are the exported leaves with their tags read as sets
		want := map[string]string{}
		wantDescr(pv.Type(), "", want)
		got := map[string]string{}
		for _, fd := range fds {
			if _, dup := got[fd.Path]; dup {
				fmt.Fprintf(w, "! C17 two descriptors for path %s of %s\n", fd.Path, T)
			}
			got[fd.Path] = fd.Type + "|" + consBits(fd.Constraints)
		}
		keys := map[string]bool{}
		for k := range want {
			keys[k] = true
		}
		for k := range got {
			keys[k] = true
		}
		ks := make([]string, 0, len(keys))
		for k := range keys {
			ks = append(ks, k)
		}
		sort.Strings(ks)
		for _, k := range ks {
			if want[k] != got[k] {
				fmt.Fprintf(w, "! C16 descriptor of path %s of %s: got %q want %q\n", k, T, got[k], want[k])
			}
		}
		// a value, the constraint walk along every path carrying a case constraint
		cnt := 0
		fill(r, pv.Elem(), &cnt)
		id := 0
		strs := map[int]string{}
		fmt.Fprintf(w, "V %s\n", valTree(pv, &id, strs, 0))
		sk := make([]string, 0)
		for k := 1; k <= id; k++ {
			if _, ok := strs[k]; ok {
				sk = append(sk, fmt.Sprint(k))
			}
		}
		fmt.Fprintf(w, "K %s\n", strings.Join(sk, ","))
		for _, fd := range fds {
			if !fd.Constraints.Transformer() {
				continue
			}
			cpv := deepCopy(pv)
			func() {
				defer func() {
					if rec := recover(); rec != nil {
						fmt.Fprintf(w, "! C16 the case constraint on path %s of %s panicked: %v\n", fd.Path, T, rec)
					}
				}()
				sod.VerifTransformAt(fd.Constraints, fd.Path, cpv)
			}()
			id2 := 0
			after := map[int]string{}
			valTree(cpv, &id2, after, 0)
			changed := []string{}
			for k := 1; k <= id2; k++ {
				if a, ok := after[k]; ok && a != strs[k] {
					changed = append(changed, fmt.Sprint(k))
					wantS := strs[k]
					if fd.Constraints.Upper {
						wantS = strings.ToUpper(wantS)
					}
					if fd.Constraints.Lower {
						wantS = strings.ToLower(wantS)
					}
					if a != wantS {
						fmt.Fprintf(w, "! C16 path %s (%s): %q became %q, want %q\n", fd.Path, consBits(fd.Constraints), strs[k], a, wantS)
					}
				}
			}
			if len(changed) == 0 {
				changed = []string{"-"}
			}
			fmt.Fprintf(w, "X %s %s\n", hx(fd.Path), strings.Join(changed, ","))
		}
		// the walk a search makes along a field path, on the same value
		runPaths(w, r, pv, fds, T)
		// a variant and the two compatibility verdicts
		vrc, how := mutate(r, rc)
		if len(vrc.fields) > 0 {
			P := vrc.build()
			pp := reflect.New(P)
			pfds := sod.VerifFieldDescriptorsOf(pp)
			m1, m2 := toMap(fds), toMap(pfds)
			c := verdict(m1.CompatibleWith(m2))
			f := verdict(m1.FieldsCompatibleWith(m2))
			fmt.Fprintf(w, "P %s\n", tyTree(pp.Type(), 0))
			fmt.Fprintf(w, "C %s %s %s\n", c, f, how)
			// oracle: accepted iff the tables are equal (resp. equal on paths and types); symmetric
			eq := reflect.DeepEqual(m1, m2)
			if (c == "ok") != eq {
				fmt.Fprintf(w, "! C17 CompatibleWith says %s for tables that are equal=%v (%s)\n", c, eq, how)
			}
			feq := len(m1) == len(m2)
			for p, d := range m1 {
				if o, ok := m2[p]; !ok || o.Type != d.Type {
					feq = false
				}
			}
			if (f == "ok") != feq {
				fmt.Fprintf(w, "! C17 FieldsCompatibleWith says %s for tables with same paths and types=%v (%s)\n", f, feq, how)
			}
			if c2 := verdict(m2.CompatibleWith(m1)); (c2 == "ok") != (c == "ok") {
				fmt.Fprintf(w, "! C17 CompatibleWith is not symmetric: %s / %s\n", c, c2)
			}
			if how == "permute" || how == "reorder" || how == "same" {
				// (a leaf type such as **struct{...} spells its fields and tags in its name, so the verdict
				// itself may change; the constraints of a path whose type did not change may not)
				for p, d := range m1 {
					if o, ok := m2[p]; ok && o.Type == d.Type && o.Constraints != d.Constraints {
						fmt.Fprintf(w, "! C16 path %s: a variant that only %ss fields/options has constraints %s instead of %s\n", p, how, consBits(o.Constraints), consBits(d.Constraints))
					}
				}
			}
			if strings.HasPrefix(c, "other") || strings.HasPrefix(f, "other") {
				fmt.Fprintf(w, "! C17 undocumented error class: %s %s\n", c, f)
			}
		}
		fmt.Fprintf(w, "E %d\n", i)
	}
	fmt.Fprintf(w, "descr done\n")
}
