package main

// C16 (tag parsing into constraints, field_desc.go:138-160): a struct whose `sod` tags list the
// same options in every order, at top level and nested; the descriptors sod derives from it are
// compared with the reading of the tag text as a SET of options (unique implies index), and the
// collection created from the tags is exercised end to end: canonical storage, case-insensitive
// search, uniqueness on canonical values.

import (
	"bufio"
	"fmt"
	"os"
	"reflect"
	"sort"
	"strings"

	"github.com/0xrawsec/sod"
)

type TagDeep struct {
	DA string `sod:"upper,unique"`
	DB string `sod:"unique,lower"`
	DC string `sod:"lower"`
}

// a named string type: it cannot be indexed or searched (sod knows the exact type "string" only) but it
// can carry a case constraint, and a stored value must then be canonical like any other (finding D16b:
// the transform panicked on it)
type TagSev string

type TagProbe struct {
	sod.Item
	A  string `sod:"upper,unique"`
	B  string `sod:"unique,upper"`
	C  string `sod:"lower,unique"`
	D  string `sod:"unique,lower"`
	E  string `sod:"index,lower"`
	F  string `sod:"lower,index"`
	G  string `sod:"upper,index"`
	H  string `sod:"index,upper"`
	I  string `sod:"index,unique,upper"`
	J  string `sod:"upper,index,unique"`
	K  string `sod:"unique,index,lower"`
	L  string `sod:"upper"`
	M  string `sod:"lower"`
	N  string `sod:"unique"`
	O  string `sod:"index"`
	P  string
	Q  int    `sod:"unique"`
	R  TagSev `sod:"lower"`
	S  TagSev `sod:"upper"`
	In TagDeep
	Pt *TagDeep
}

func wantCons(tag string) sod.Constraints {
	var c sod.Constraints
	for _, o := range strings.Split(tag, ",") {
		switch strings.TrimSpace(o) {
		case "index":
			c.Index = true
		case "unique":
			c.Unique, c.Index = true, true
		case "upper":
			c.Upper = true
		case "lower":
			c.Lower = true
		}
	}
	return c
}

func collectTags(t reflect.Type, prefix string, out map[string]string) {
	for i := 0; i < t.NumField(); i++ {
		f := t.Field(i)
		ft := f.Type
		if ft.Kind() == reflect.Ptr {
			ft = ft.Elem()
		}
		path := f.Name
		if prefix != "" {
			path = prefix + "." + f.Name
		}
		if ft.Kind() == reflect.Struct && ft != reflect.TypeOf(sod.Item{}) {
			collectTags(ft, path, out)
			continue
		}
		if f.Type == reflect.TypeOf(sod.Item{}) {
			continue
		}
		out[path] = f.Tag.Get("sod")
	}
}

func runTags(w *bufio.Writer) {
	tags := map[string]string{}
	collectTags(reflect.TypeOf(TagProbe{}), "", tags)
	fds := sod.FieldDescriptors(&TagProbe{})
	paths := make([]string, 0, len(tags))
	for p := range tags {
		paths = append(paths, p)
	}
	sort.Strings(paths)
	for _, p := range paths {
		fd, ok := fds[p]
		if !ok {
			fmt.Fprintf(w, "! C16 no field descriptor for path %s\n", p)
			continue
		}
		want := wantCons(tags[p])
		if fd.Constraints != want {
			fmt.Fprintf(w, "! C16 field %s tagged `sod:\"%s\"`: constraints %+v, want %+v\n", p, tags[p], fd.Constraints, want)
		}
		fmt.Fprintf(w, "tag %s %q %+v\n", p, tags[p], fd.Constraints)
	}
	// end to end on a collection created from the tags
	root, _ := os.MkdirTemp("", "hzt")
	defer os.RemoveAll(root)
	db := sod.Open(root)
	if err := db.Create(&TagProbe{}, sod.DefaultSchema); err != nil {
		fmt.Fprintf(w, "! C16 create from tags: %v\n", err)
		return
	}
	mk := func(s string, q int) *TagProbe {
		return &TagProbe{A: s + "a", B: s + "b", C: s + "C", D: s + "D", E: s + "E", F: s + "F", G: s + "g", H: s + "h", I: s + "i", J: s + "j",
			K: s + "K", L: s + "l", M: s + "M", N: s + "n", O: s + "o", P: s + "p", Q: q, R: TagSev(s + "R"), S: TagSev(s + "s"),
			In: TagDeep{DA: s + "da", DB: s + "DB", DC: s + "DC"}, Pt: &TagDeep{DA: s + "pa", DB: s + "PB", DC: s + "PC"}}
	}
	o1 := mk("Mixed", 1)
	insert := func(o *TagProbe) (err error) {
		defer func() {
			if r := recover(); r != nil {
				err = fmt.Errorf("PANIC: %v", r)
			}
		}()
		return db.InsertOrUpdate(o)
	}
	if err := insert(o1); err != nil {
		fmt.Fprintf(w, "! C16 insert: %v\n", err)
		return
	}
	got, err := db.GetByUUID(&TagProbe{}, o1.UUID())
	if err != nil {
		fmt.Fprintf(w, "! C16 get: %v\n", err)
		return
	}
	g := reflect.ValueOf(got).Elem()
	var walk func(v reflect.Value, prefix string)
	walk = func(v reflect.Value, prefix string) {
		for i := 0; i < v.NumField(); i++ {
			f := v.Type().Field(i)
			fv := v.Field(i)
			path := f.Name
			if prefix != "" {
				path = prefix + "." + f.Name
			}
			if fv.Kind() == reflect.Ptr && !fv.IsNil() {
				fv = fv.Elem()
			}
			if fv.Kind() == reflect.Struct && fv.Type() != reflect.TypeOf(sod.Item{}) {
				walk(fv, path)
				continue
			}
			if fv.Kind() != reflect.String {
				continue
			}
			c := wantCons(tags[path])
			s := fv.String()
			if c.Upper && s != strings.ToUpper(s) {
				fmt.Fprintf(w, "! C16 field %s (`%s`) stored as %q: not upper case\n", path, tags[path], s)
			}
			if c.Lower && !c.Upper && s != strings.ToLower(s) {
				fmt.Fprintf(w, "! C16 field %s (`%s`) stored as %q: not lower case\n", path, tags[path], s)
			}
			// case-insensitive search on constrained fields, indexed or not
			if (c.Upper || c.Lower) && fv.Type() == reflect.TypeOf("") {
				for _, probe := range []string{strings.ToUpper(s), strings.ToLower(s)} {
					sr := db.Search(&TagProbe{}, path, "=", probe)
					if sr.Err() != nil || sr.Len() != 1 {
						fmt.Fprintf(w, "! C16 search %s = %q on a `%s` field: %d result(s), err %v, want 1\n", path, probe, tags[path], sr.Len(), sr.Err())
					}
				}
			}
		}
	}
	walk(g, "")
	// uniqueness is judged on canonical values: a case variant of every unique+case field conflicts
	for _, p := range paths {
		c := wantCons(tags[p])
		if !(c.Unique && (c.Upper || c.Lower)) {
			continue
		}
		o2 := mk("other", 2)
		v := reflect.ValueOf(o2).Elem()
		for _, name := range strings.Split(p, ".") {
			v = v.FieldByName(name)
			if v.Kind() == reflect.Ptr {
				v = v.Elem()
			}
		}
		src := reflect.ValueOf(o1).Elem()
		for _, name := range strings.Split(p, ".") {
			src = src.FieldByName(name)
			if src.Kind() == reflect.Ptr {
				src = src.Elem()
			}
		}
		s := src.String()
		variant := strings.ToLower(s)
		if variant == s {
			variant = strings.ToUpper(s)
		}
		v.SetString(variant)
		if err := db.InsertOrUpdate(o2); err == nil || !sod.IsUnique(err) {
			fmt.Fprintf(w, "! C16 a case variant %q of the value of unique field %s (`%s`) was accepted (err %v)\n", variant, p, tags[p], err)
			if err == nil {
				db.Delete(o2)
			}
		}
	}
	fmt.Fprintf(w, "tags done %d\n", len(paths))
}
