package main

// C18: the name of a directory entry -> (uuid part, extension, listed or not) by utils.go uuidExt and
// the uuid test of uuidsFromDir, on generated names: uuid-shaped prefixes in either case followed by
// any suffix (none, with or without a dot, with inner dots, .gz, a tilde), near misses (one byte short
// or long, a hyphen moved, a non-hex byte), short names, schema.json.  One line per name, hex encoded;
// the OCaml driver (-names) evaluates Model/Layout.v uuid_ext / uuid_shaped on the same names.

import (
	"bufio"
	"encoding/hex"
	"fmt"
	"math/rand"

	"github.com/0xrawsec/sod"
)

func genName(r *rand.Rand) string {
	hexd := "0123456789abcdefABCDEF"
	u := make([]byte, 36)
	for i := range u {
		if i == 8 || i == 13 || i == 18 || i == 23 {
			u[i] = '-'
		} else {
			u[i] = hexd[r.Intn(len(hexd))]
		}
	}
	sufs := []string{"", ".json", ".json.gz", "dat", "-v1.json", ".gz", "~", ".", "..", "x.y", ".obj.v1", "0", "-"}
	switch r.Intn(10) {
	case 0:
		return string(u[:35]) + sufs[r.Intn(len(sufs))]
	case 1:
		return string(u) + string(hexd[r.Intn(len(hexd))]) + sufs[r.Intn(len(sufs))]
	case 2:
		i := r.Intn(36)
		u[i] = "g-._G/z"[r.Intn(7)]
		return string(u) + sufs[r.Intn(len(sufs))]
	case 3:
		u[8], u[9] = u[9], u[8]
		return string(u) + sufs[r.Intn(len(sufs))]
	case 4:
		return []string{"schema.json", "", ".", "a", "README.md", "schema.json.bak"}[r.Intn(6)]
	}
	return string(u) + sufs[r.Intn(len(sufs))]
}

func runNames(w *bufio.Writer, seed int64, n int) {
	r := rand.New(rand.NewSource(seed))
	for i := 0; i < n; i++ {
		name := genName(r)
		u, ext, listed := sod.VerifUuidExt(name)
		l := 0
		if listed {
			l = 1
		}
		fmt.Fprintf(w, "N x%s x%s x%s %d\n", hex.EncodeToString([]byte(name)), hex.EncodeToString([]byte(u)), hex.EncodeToString([]byte(ext)), l)
	}
	fmt.Fprintf(w, "names done\n")
}
