package main

// hz: the correspondence harness. Generates (or replays) histories, runs them on the real sod
// and writes one trace file that the extracted Coq model replays (see exec.go for the format).

import (
	"bufio"
	"encoding/hex"
	"flag"
	"fmt"
	"math/rand"
	"os"
	"path/filepath"
	"regexp"
	"sort"
	"strconv"
	"strings"

	"github.com/0xrawsec/sod"
	"github.com/0xrawsec/sod/vshim"
)

var keepDir string // -keep: final directory, uuid map and trace of every history are kept here

func copyDir(src, dst string) {
	filepath.Walk(src, func(p string, info os.FileInfo, err error) error {
		if err != nil {
			return nil
		}
		rel, _ := filepath.Rel(src, p)
		if info.IsDir() {
			os.MkdirAll(filepath.Join(dst, rel), 0700)
			return nil
		}
		b, _ := os.ReadFile(p)
		os.WriteFile(filepath.Join(dst, rel), b, 0600)
		return nil
	})
}

func runHistory(w0 *bufio.Writer, id int, seed int64, p Profile, lines []string, cfg *Cfg, virtual bool) (fails int) {
	root, err := os.MkdirTemp("", "hz")
	if err != nil {
		panic(err)
	}
	defer os.RemoveAll(root)
	w := w0
	var hb strings.Builder
	if keepDir != "" {
		w = bufio.NewWriter(&hb)
	}
	r := rand.New(rand.NewSource(seed))
	mo := p.MaxOps
	p = profile(p.Name) // fresh weight map: histories must not share mutable state
	p.MaxOps = mo
	var c Cfg
	if cfg != nil {
		c = *cfg
	} else {
		c = genCfg(r, p)
	}
	fmt.Fprintf(w, "hist %d seed=%d profile=%s\n", id, seed, p.Name)
	for _, l := range c.Lines() {
		fmt.Fprintln(w, l)
	}
	vshim.SetVirtual(virtual)
	e := NewExec(root, c, w, seed^0x5eed)
	e.virtual = virtual
	e.spec.prop = p.Name
	nextSid = 0
	if lines != nil {
		for _, l := range lines {
			e.Step(l)
		}
	} else {
		e.Step("create")
		n := 0
		// C05 / C06: exactly ONE crash / storage fault per history, so that what the oracles see
		// afterwards is attributable to it
		single := ""
		switch p.Name {
		case "C05":
			single = "crashwrite"
		case "C06":
			single = "failwrite"
		}
		if single != "" {
			p.W[single] = 0
			p.MaxOps = 8 + r.Intn(14)
		}
		for n < p.MaxOps {
			for _, l := range e.GenOp(r, p) {
				e.Step(l)
				n++
			}
		}
		if single != "" {
			for k := range p.W {
				p.W[k] = 0
			}
			p.W[single] = 1
			for _, l := range e.GenOp(r, p) {
				e.Step(l)
			}
			p = profile(p.Name)
			p.W[single] = 0
			for n = 0; n < 5; {
				for _, l := range e.GenOp(r, p) {
					e.Step(l)
					n++
				}
			}
		}
		for _, l := range []string{"count", "all", "dump", "fs"} {
			e.Step(l)
		}
		if p.Name == "golden" {
			e.Step("close")
		} else if p.Name != "C10" {
			for _, l := range []string{"close", "reopen", "count", "all", "dump", "fs"} {
				e.Step(l)
			}
		}
	}
	if virtual {
		e.db.Close()
		e.drainFlushers()
	}
	fmt.Fprintf(w, "end %d\n", id)
	if keepDir != "" {
		w.Flush()
		w0.WriteString(hb.String())
		d := filepath.Join(keepDir, fmt.Sprintf("h%03d", id))
		os.MkdirAll(d, 0700)
		copyDir(root, filepath.Join(d, "db"))
		os.WriteFile(filepath.Join(d, "trace.txt"), []byte(hb.String()), 0600)
		os.WriteFile(filepath.Join(d, "umap.txt"), []byte(strings.Join(e.uu[1:], "\n")+"\n"), 0600)
	}
	return e.spec.fails
}

// runGolden: a directory written by the PINNED release (with the history that produced it) is
// opened by the current tree. The recorded ops are replayed on the model only ("r *" = not
// compared); then the current tree reads, searches, writes, closes and reopens.
func runGolden(w *bufio.Writer, id int, seed int64, dir string) (fails int) {
	root, _ := os.MkdirTemp("", "hzg")
	defer os.RemoveAll(root)
	copyDir(filepath.Join(dir, "db"), root)
	data, err := os.ReadFile(filepath.Join(dir, "trace.txt"))
	if err != nil {
		panic(err)
	}
	um, _ := os.ReadFile(filepath.Join(dir, "umap.txt"))
	var cfg Cfg
	cfg.Ext = ".json"
	for i := range cfg.Cons {
		cfg.Cons[i] = "0000"
	}
	type rop struct {
		op  string
		obs []string
	}
	var rops []rop
	for _, l := range strings.Split(string(data), "\n") {
		t := strings.Fields(l)
		if len(t) == 0 {
			continue
		}
		switch t[0] {
		case "cfg":
			cfg.applyKV(parseKV(t[1:]))
		case "fields":
			copy(cfg.Cons[:], t[1:])
		case "op":
			rops = append(rops, rop{op: strings.Join(t[1:], " ")})
		case "o", "r":
			if len(rops) > 0 {
				rops[len(rops)-1].obs = append(rops[len(rops)-1].obs, l)
			}
		}
	}
	fmt.Fprintf(w, "hist %d seed=%d profile=C18 golden=%s\n", id, seed, filepath.Base(dir))
	for _, l := range cfg.Lines() {
		fmt.Fprintln(w, l)
	}
	vshim.SetVirtual(true)
	e := NewExec(root, cfg, w, seed^0x5eed)
	e.virtual = true
	e.spec.prop = "C18"
	for _, u := range strings.Fields(string(um)) {
		e.unum(u)
	}
	nextSid = 1000
	e.spec.mute = true
	for _, ro := range rops {
		fmt.Fprintln(w, "op "+ro.op)
		e.obs = e.obs[:0]
		t := strings.Fields(ro.op)
		e.oracles(t) // case / regex tables recomputed by the current Go (and registered)
		for _, l := range ro.obs {
			if strings.HasPrefix(l, "o ") && !strings.HasPrefix(l, "o case") && !strings.HasPrefix(l, "o rx") {
				fmt.Fprintln(w, l)
			}
			if !strings.HasPrefix(l, "o case") && !strings.HasPrefix(l, "o rx") {
				e.obs = append(e.obs, l)
			}
		}
		fmt.Fprintln(w, "r *")
		e.spec.Check(e, t)
		if t[0] == "create" && len(ro.obs) > 0 {
			c := e.cfg
			c.applyKV(parseKV(t[1:]))
			e.cfg.Cache, e.cfg.Async, e.cfg.Thr, e.cfg.To = c.Cache, c.Async, c.Thr, c.To
		}
	}
	e.spec.mute = false
	// the model's handle is whatever the recorded history left: start from a fresh one on both sides
	r := rand.New(rand.NewSource(seed))
	p := profile("C18")
	for _, l := range []string{"reopen", "count", "all", "dump", "fs"} {
		e.Step(l)
	}
	// the application starts as it always did: Create with the schema the directory was written with (model-free:
	// the pinned release accepted this very call on this very directory)
	e.Step("create")
	for _, l := range e.obs {
		if strings.HasPrefix(l, "r ") && l != "r ok" {
			e.spec.fails++
			fmt.Fprintf(w, "! C18 Create with the schema a directory was written with by the pinned release is refused by the current code on that directory: %s\n", l)
		}
	}
	for _, l := range []string{"count", "all"} {
		e.Step(l)
	}
	// search sweep: every operator at every stored key of a few fields
	for k := 0; k < 12; k++ {
		nextSid++
		e.Step(fmt.Sprintf("search %d %s", nextSid, e.genCmp(r)))
		e.Step(fmt.Sprintf("collect %d -1 0 %d", nextSid, e.collectMode(nextSid, -1)))
	}
	for n := 0; n < 20; {
		for _, l := range e.GenOp(r, p) {
			e.Step(l)
			n++
		}
	}
	for _, l := range []string{"count", "all", "dump", "fs", "close", "reopen", "count", "all", "dump", "fs", "control"} {
		e.Step(l)
	}
	e.db.Close()
	e.drainFlushers()
	fmt.Fprintf(w, "end %d\n", id)
	return e.spec.fails
}

// ---------------------------------------------------------------- C12: pairs of configurations

// variant: another storage configuration / index subset with the SAME unique and case constraints
func variant(r *rand.Rand, c Cfg) Cfg {
	d := c
	d.Cache = !c.Cache
	if pct(r, 50) {
		d.Compress = !c.Compress
	}
	if pct(r, 50) {
		d.Lower = !c.Lower
	}
	if pct(r, 50) {
		d.Async = !c.Async
		d.Thr, d.To = 1+r.Intn(4), 1+r.Intn(3)
	}
	if pct(r, 40) {
		d.Ext = []string{".json", ".dat", ".obj.v1", ""}[r.Intn(4)]
	}
	for i := 0; i < NF; i++ {
		fl := []byte(c.Cons[i])
		if fl[1] != '1' { // a unique field stays indexed as it was
			if pct(r, 50) {
				fl[0] = '1'
			} else {
				fl[0] = '0'
			}
		}
		d.Cons[i] = string(fl)
	}
	return d
}

// normPair: the observable of one op that must not depend on the configuration
func normPair(op string, obs []string) string {
	t := strings.Fields(op)
	r := ""
	for _, l := range obs {
		if strings.HasPrefix(l, "r ") {
			r = l
			break
		}
	}
	switch t[0] {
	case "dump", "fs", "aidx", "create", "tick", "failat", "crashat":
		return "-" // configuration-specific observations
	case "collect", "one":
		f := strings.Fields(r)
		if len(f) >= 3 && f[1] == "ok" {
			lim := "-1"
			if t[0] == "collect" {
				lim = t[2]
			}
			if lim != "-1" || t[0] == "one" {
				return "r ok " + f[2] // a limited result of an unordered set: its size
			}
			recs := append([]string{}, f[3:]...)
			sort.Strings(recs)
			return "r ok " + f[2] + " " + strings.Join(recs, " ")
		}
	}
	return r
}

func runPair(w *bufio.Writer, id int, seed int64, p Profile) (diffs int) {
	r := rand.New(rand.NewSource(seed))
	p = profile("C12")
	ca := genCfg(r, p)
	cb := variant(r, ca)
	// A: generate while executing
	var sa strings.Builder
	wa := bufio.NewWriter(&sa)
	rootA, _ := os.MkdirTemp("", "hzA")
	defer os.RemoveAll(rootA)
	vshim.SetVirtual(true)
	ea := NewExec(rootA, ca, wa, seed^0x5eed)
	ea.virtual = true
	nextSid = 0
	pairOther = &cb
	defer func() { pairOther = nil }()
	var ops []string
	var obsA [][]string
	step := func(e *Exec, l string) []string {
		e.Step(l)
		return append([]string{}, e.obs...)
	}
	staleOps := map[int]bool{}
	staleSid := map[int]bool{} // searches derived from a stale one
	record := func(l string) {
		t := strings.Fields(l)
		if len(t) >= 2 {
			switch t[0] {
			case "and", "or":
				o, _ := strconv.Atoi(t[2])
				if ea.stale(o) || staleSid[o] {
					staleOps[len(ops)] = true
					sid, _ := strconv.Atoi(t[1])
					staleSid[sid] = true
				}
			case "collect", "one", "len", "sdel", "expects":
				sid, _ := strconv.Atoi(t[1])
				if ea.stale(sid) || staleSid[sid] {
					staleOps[len(ops)] = true
				}
			}
		}
		obsA = append(obsA, step(ea, l))
		ops = append(ops, l)
	}
	record("create")
	for n := 0; n < p.MaxOps; {
		for _, l := range ea.GenOp(r, p) {
			record(l)
			n++
		}
	}
	for _, l := range []string{"flushall", "control", "count", "all", "close", "reopen", "count", "all"} {
		record(l)
	}
	ea.db.Close()
	ea.drainFlushers()
	wa.Flush()
	// B: replay
	var sb strings.Builder
	wb := bufio.NewWriter(&sb)
	rootB, _ := os.MkdirTemp("", "hzB")
	defer os.RemoveAll(rootB)
	eb := NewExec(rootB, cb, wb, seed^0x5eed)
	eb.virtual = true
	eb.spec.off = true
	fmt.Fprintf(w, "pair %d seed=%d\n", id, seed)
	fmt.Fprintf(w, "a %s | %s\n", ca.Lines()[0], ca.Lines()[1])
	fmt.Fprintf(w, "b %s | %s\n", cb.Lines()[0], cb.Lines()[1])
	for i, l := range ops {
		ob := step(eb, l)
		na, nb := normPair(l, obsA[i]), normPair(l, ob)
		if staleOps[i] {
			// refining / collecting a result some of whose objects were deleted since: an error or
			// an omission are both allowed (C20), and which one occurs depends on the path taken
			na, nb = "-", "-"
		}
		if na != nb {
			diffs++
			fmt.Fprintf(w, "! C12 op %d %q differs between configurations: A=%q B=%q\n", i, l, na, nb)
			fmt.Fprintf(w, "replay %s\n", strings.Join(ops[:i+1], " ;; "))
			break
		}
	}
	eb.db.Close()
	eb.drainFlushers()
	fmt.Fprintf(w, "endpair %d ops=%d diffs=%d specfails=%d\n", id, len(ops), diffs, ea.spec.fails)
	return
}

func main() {
	prop := flag.String("prop", "C02", "profile / property id")
	seed := flag.Int64("seed", 1, "seed")
	n := flag.Int("n", 10, "number of histories")
	first := flag.Int("first", 0, "index of the first history (shards)")
	out := flag.String("out", "", "trace file (default stdout)")
	replay := flag.String("replay", "", "replay file: cfg/fields header lines then op lines (one history)")
	maxops := flag.Int("maxops", 0, "override profile MaxOps")
	shards := flag.Int("shards", 1, "golden mode: number of shards")
	shard := flag.Int("shard", 0, "golden mode: this shard")
	keep := flag.String("keep", "", "keep the final directory, uuid map and trace of every history under this directory")
	golden := flag.String("golden", "", "C18: directory of golden databases (written by the pinned release) to open with the current tree")
	fuzz19 := flag.Bool("fuzz19", false, "C19: one mutation of a valid database directory, then a battery of calls under recover + watchdog")
	clonem := flag.Bool("clone", false, "C14: alias correspondence of CloneObject + mutate-after-store probes")
	conc := flag.Bool("conc", false, "C08: concurrent workloads on one handle (build with -race)")
	snake := flag.Bool("snake", false, "C18: print camelToSnake of every string over a small alphabet (hex in, hex out)")
	snapchild := flag.String("snapchild", "", "internal: judge a copied database directory in this (child) process")
	snaplower := flag.String("snaplower", "0", "internal: lower-case directory names in the copy")
	lockprobes := flag.Bool("lockprobes", false, "C09: Drop under load, Drop after a large batch, Close while the storage fails, each under a watchdog")
	timekeym := flag.Bool("timekey", false, "C02/C13: index keys of time.Time values, AssignIndex back-conversion and comparisons between stored instants, for the model (driver -timekey)")
	namesm := flag.Bool("names", false, "C18: uuidExt / uuid test of uuidsFromDir on generated entry names, for the model (driver -names)")
	descrm := flag.Bool("descr", false, "C16/C17: descriptors of run-time struct types, constraint walks and compatibility verdicts, for the model (driver -descr) + oracles")
	tagsm := flag.Bool("tags", false, "C16: descriptors derived from struct tags in every option order + end-to-end probes")
	namedW := flag.String("named-write", "", "C18: write the named-types golden directory (run with the harness built against the pinned release)")
	namedC := flag.String("named-check", "", "C18: open the named-types golden directory with the current tree")
	linm := flag.Bool("lin", false, "C08: small concurrent histories with invocation/response times, for the linearizability search against the extracted model")
	pair := flag.Bool("pair", false, "C12: run every history under a pair of configurations and compare (model-free)")
	flag.Parse()
	if *snapchild != "" {
		vshim.SetVirtual(false)
		snapChild(*snapchild, *snaplower == "1")
		return
	}

	var w *bufio.Writer
	if *out == "" {
		w = bufio.NewWriter(os.Stdout)
	} else {
		f, err := os.Create(*out)
		if err != nil {
			panic(err)
		}
		defer f.Close()
		w = bufio.NewWriterSize(f, 1<<20)
	}
	defer w.Flush()
	p := profile(*prop)
	if *maxops > 0 {
		p.MaxOps = *maxops
	}
	virtual := true // the flusher's sleeps always go through the virtual clock: ticks are explicit events
	fails := 0
	keepDir = *keep
	if *fuzz19 {
		for i := 0; i < *n; i++ {
			// (flushed per case: if the process dies in a case, the cases before it are on record and
			// the one that killed it is known)
			fmt.Fprintf(w, "case %d\n", *first+i)
			w.Flush()
			fails += runFuzz19(w, *first+i, *seed*1000003+int64(*first+i))
			w.Flush()
			fails += runArgs19(w, *first+i, rand.New(rand.NewSource(*seed*7000003+int64(*first+i))))
			w.Flush()
		}
		w.Flush()
		return
	}
	if *namedW != "" {
		namedWrite(*namedW)
		return
	}
	if *namedC != "" {
		namedCheck(w, *namedC)
		w.Flush()
		return
	}
	if *linm {
		for i := 0; i < *n; i++ {
			runLin(w, *first+i, *seed*1000003+int64(*first+i))
		}
		w.Flush()
		return
	}
	if *lockprobes {
		runLockProbes(w, *seed, *n)
		w.Flush()
		return
	}
	if *timekeym {
		runTimeKey(w, *seed, *n)
		w.Flush()
		return
	}
	if *namesm {
		runNames(w, *seed, *n)
		w.Flush()
		return
	}
	if *descrm {
		runDescr(w, *seed, *first, *n)
		w.Flush()
		return
	}
	if *tagsm {
		runTags(w)
		w.Flush()
		return
	}
	if *clonem {
		runClone(w, *seed*1000003+int64(*first), *n)
		w.Flush()
		return
	}
	if *conc {
		for i := 0; i < *n; i++ {
			fails += runConc(w, *first+i, *seed*1000003+int64(*first+i))
			w.Flush()
		}
		return
	}
	if *golden != "" {
		ents, _ := os.ReadDir(*golden)
		k := 0
		for _, en := range ents {
			if !en.IsDir() {
				continue
			}
			if k%*shards == *shard {
				fails += runGolden(w, k, *seed*1000003+int64(k), filepath.Join(*golden, en.Name()))
			}
			k++
		}
		w.Flush()
		return
	}
	if *snake {
		// every string over a small alphabet up to length 6 through the implementation's camelToSnake
		alpha := []byte("aB1_.Zc")
		var rec func(prefix []byte, n int)
		rec = func(prefix []byte, n int) {
			fmt.Fprintf(w, "%s %s\n", hex.EncodeToString(prefix), hex.EncodeToString([]byte(sod.VerifCamelToSnake(string(prefix)))))
			if n == 0 {
				return
			}
			for _, c := range alpha {
				rec(append(append([]byte{}, prefix...), c), n-1)
			}
		}
		rec(nil, 6)
		for _, s := range []string{"shape.Rec", "shape.Other", "TestTEST", "TestTest", "main.myStruct2", "pkg.HTTPServer", "a.B1C", "X", "pkg.ABC1def"} {
			fmt.Fprintf(w, "%s %s\n", hex.EncodeToString([]byte(s)), hex.EncodeToString([]byte(sod.VerifCamelToSnake(s))))
		}
		w.Flush()
		return
	}
	if *pair {
		for i := 0; i < *n; i++ {
			id := *first + i
			fails += runPair(w, id, *seed*1000003+int64(id), p)
		}
		w.Flush()
		return
	}
	if *replay != "" {
		data, err := os.ReadFile(*replay)
		if err != nil {
			panic(err)
		}
		var cfg Cfg
		cfg.Ext = ".json"
		for i := range cfg.Cons {
			cfg.Cons[i] = "0000"
		}
		var ops []string
		hseed := *seed
		for _, l := range strings.Split(string(data), "\n") {
			l = strings.TrimSpace(l)
			t := strings.Fields(l)
			if strings.HasPrefix(l, "#") {
				// the header written by the check names the history: its seed also drives the choices the executor
				// makes on its own (identifiers in upper case, witnesses holding data): same seed, same run
				if m := regexp.MustCompile(`hist \d+ seed=(\d+)`).FindStringSubmatch(l); m != nil {
					if v, err := strconv.ParseInt(m[1], 10, 64); err == nil {
						hseed = v
					}
				}
				continue
			}
			if len(t) == 0 {
				continue
			}
			switch t[0] {
			case "cfg":
				cfg.applyKV(parseKV(t[1:]))
			case "fields":
				copy(cfg.Cons[:], t[1:])
			case "op":
				ops = append(ops, strings.Join(t[1:], " "))
			case "hist", "end", "r", "s", "o", "!":
			default:
				ops = append(ops, l)
			}
		}
		fails = runHistory(w, 0, hseed, p, ops, &cfg, virtual)
	} else {
		for i := 0; i < *n; i++ {
			id := *first + i
			fails += runHistory(w, id, *seed*1000003+int64(id), p, nil, nil, virtual)
		}
	}
	w.Flush()
	if fails > 0 {
		fmt.Fprintf(os.Stderr, "oracle failures: %d\n", fails)
	}
}
