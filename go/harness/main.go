package main

// hz: the correspondence harness. Generates (or replays) histories, runs them on the real sod
// and writes one trace file that the extracted Coq model replays (see exec.go for the format).

import (
	"bufio"
	"flag"
	"fmt"
	"math/rand"
	"os"
	"strings"

	"github.com/0xrawsec/sod/vshim"
)

func runHistory(w *bufio.Writer, id int, seed int64, p Profile, lines []string, cfg *Cfg, virtual bool) (fails int) {
	root, err := os.MkdirTemp("", "hz")
	if err != nil {
		panic(err)
	}
	defer os.RemoveAll(root)
	r := rand.New(rand.NewSource(seed))
	mo := p.MaxOps
	p = profile(p.Name) // fresh weight map: histories must not share mutable state
	p.MaxOps = mo
	var c Cfg
	if cfg != nil {
		c = *cfg
	} else {
		c = genCfg(r, p)
	}
	fmt.Fprintf(w, "hist %d seed=%d profile=%s\n", id, seed, p.Name)
	for _, l := range c.Lines() {
		fmt.Fprintln(w, l)
	}
	vshim.SetVirtual(virtual)
	e := NewExec(root, c, w, seed^0x5eed)
	e.virtual = virtual
	e.spec.prop = p.Name
	nextSid = 0
	if lines != nil {
		for _, l := range lines {
			e.Step(l)
		}
	} else {
		e.Step("create")
		n := 0
		// C05 / C06: exactly ONE crash / storage fault per history, so that what the oracles see
		// afterwards is attributable to it
		single := ""
		switch p.Name {
		case "C05":
			single = "crashwrite"
		case "C06":
			single = "failwrite"
		}
		if single != "" {
			p.W[single] = 0
			p.MaxOps = 8 + r.Intn(14)
		}
		for n < p.MaxOps {
			for _, l := range e.GenOp(r, p) {
				e.Step(l)
				n++
			}
		}
		if single != "" {
			for k := range p.W {
				p.W[k] = 0
			}
			p.W[single] = 1
			for _, l := range e.GenOp(r, p) {
				e.Step(l)
			}
			p = profile(p.Name)
			p.W[single] = 0
			for n = 0; n < 5; {
				for _, l := range e.GenOp(r, p) {
					e.Step(l)
					n++
				}
			}
		}
		for _, l := range []string{"count", "all", "dump", "fs"} {
			e.Step(l)
		}
		if p.Name != "C10" {
			for _, l := range []string{"close", "reopen", "count", "all", "dump", "fs"} {
				e.Step(l)
			}
		}
	}
	if virtual {
		e.db.Close()
		e.drainFlushers()
	}
	fmt.Fprintf(w, "end %d\n", id)
	return e.spec.fails
}

func main() {
	prop := flag.String("prop", "C02", "profile / property id")
	seed := flag.Int64("seed", 1, "seed")
	n := flag.Int("n", 10, "number of histories")
	first := flag.Int("first", 0, "index of the first history (shards)")
	out := flag.String("out", "", "trace file (default stdout)")
	replay := flag.String("replay", "", "replay file: cfg/fields header lines then op lines (one history)")
	maxops := flag.Int("maxops", 0, "override profile MaxOps")
	flag.Parse()

	var w *bufio.Writer
	if *out == "" {
		w = bufio.NewWriter(os.Stdout)
	} else {
		f, err := os.Create(*out)
		if err != nil {
			panic(err)
		}
		defer f.Close()
		w = bufio.NewWriterSize(f, 1<<20)
	}
	defer w.Flush()
	p := profile(*prop)
	if *maxops > 0 {
		p.MaxOps = *maxops
	}
	virtual := p.Name == "C10" || p.CfgMode == "async"
	fails := 0
	if *replay != "" {
		data, err := os.ReadFile(*replay)
		if err != nil {
			panic(err)
		}
		var cfg Cfg
		cfg.Ext = ".json"
		for i := range cfg.Cons {
			cfg.Cons[i] = "0000"
		}
		var ops []string
		for _, l := range strings.Split(string(data), "\n") {
			l = strings.TrimSpace(l)
			t := strings.Fields(l)
			if len(t) == 0 || strings.HasPrefix(l, "#") {
				continue
			}
			switch t[0] {
			case "cfg":
				cfg.applyKV(parseKV(t[1:]))
			case "fields":
				copy(cfg.Cons[:], t[1:])
			case "op":
				ops = append(ops, strings.Join(t[1:], " "))
			case "hist", "end", "r", "s", "o", "!":
			default:
				ops = append(ops, l)
			}
		}
		virtual = cfg.Async
		fails = runHistory(w, 0, *seed, p, ops, &cfg, virtual)
	} else {
		for i := 0; i < *n; i++ {
			id := *first + i
			fails += runHistory(w, id, *seed*1000003+int64(id), p, nil, nil, virtual)
		}
	}
	w.Flush()
	if fails > 0 {
		fmt.Fprintf(os.Stderr, "oracle failures: %d\n", fails)
	}
}
