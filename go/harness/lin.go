package main

// C08, linearizability against the EXTRACTED SEQUENTIAL MODEL: a few goroutines issue a few CRUD
// calls each on one handle (flusher parked in the virtual clock); every call is recorded with a
// logical invocation / response time and its result; `driver -lin` searches a linearization
// (Wing-Gong) along which the Coq model returns exactly what was observed.

import (
	"bufio"
	"fmt"
	"math/rand"
	"os"
	"sort"
	"strings"
	"sync"
	"sync/atomic"

	"github.com/0xrawsec/sod"
	"github.com/0xrawsec/sod/vshim"

	"verif/harness/shape"
)

type linCall struct {
	g         int
	line      string
	kind      string
	objs      []sod.Object
	uuid      string
	inv, resp int64
	err       error
	n         int
	ok        bool
	got       sod.Object
	all       []sod.Object
}

func runLin(w *bufio.Writer, id int, seed int64) {
	r := rand.New(rand.NewSource(seed))
	root, _ := os.MkdirTemp("", "hzl")
	defer os.RemoveAll(root)
	vshim.SetVirtual(true)
	p := profile("C01")
	c := genCfg(r, p)
	if c.Async {
		c.Thr, c.To = 1000, 2 // the flusher stays parked in the virtual clock: no tick is issued while calls run
	}
	// one unique field with a tiny key pool: contention
	for i := range c.Cons {
		fl := []byte(c.Cons[i])
		fl[1] = '0'
		c.Cons[i] = string(fl)
	}
	c.Cons[shape.FK] = "1100"
	fmt.Fprintf(w, "hist %d seed=%d profile=lin\n", id, seed)
	for _, l := range c.Lines() {
		fmt.Fprintln(w, l)
	}
	e := NewExec(root, c, w, seed^0x5eed)
	e.virtual = true
	e.spec.off = true
	e.spec.mute = true
	nextSid = 0
	e.Step("create")
	pool := []string{"lk0", "lk1", "lk2"}
	npre := r.Intn(3)
	for i := 0; i < npre; i++ {
		f := genRec(r, c)
		f.K[shape.FK] = stok(fmt.Sprintf("pre%d", i))
		f.K[shape.FTM], f.K[shape.FVM] = "i0", "i0"
		e.Step("ins " + f.String())
	}
	e.Step("count")
	live := []int{}
	for u := 1; u < len(e.uu); u++ {
		live = append(live, u)
	}
	next := len(e.uu)
	newU := func() int { next++; e.ustr(next); return next }
	G := 2 + r.Intn(2)
	var calls []*linCall
	mkRec := func() Flat {
		f := genRec(r, c)
		f.K[shape.FTM], f.K[shape.FVM] = "i0", "i0"
		if r.Intn(2) == 0 {
			f.K[shape.FK] = stok(pool[r.Intn(len(pool))])
		} else {
			f.K[shape.FK] = stok(fmt.Sprintf("k%d", r.Intn(1000)))
		}
		return f
	}
	known := append([]int{}, live...)
	for g := 0; g < G; g++ {
		n := 2 + r.Intn(3)
		for k := 0; k < n; k++ {
			cl := &linCall{g: g}
			switch x := r.Intn(100); {
			case x < 35:
				f := mkRec()
				f.U = newU()
				known = append(known, f.U)
				cl.kind, cl.line, cl.objs = "ins", "ins "+f.String(), []sod.Object{e.rec(f)}
			case x < 45 && len(known) > 0:
				f := mkRec()
				f.U = known[r.Intn(len(known))]
				cl.kind, cl.line, cl.objs = "ins", "ins "+f.String(), []sod.Object{e.rec(f)}
			case x < 55:
				f1, f2 := mkRec(), mkRec()
				f1.U, f2.U = newU(), newU()
				f1.K[shape.FVM] = "i9" // slow Validate: the batch stays between its phases for a while
				known = append(known, f1.U, f2.U)
				cl.kind, cl.line, cl.objs = "many", "many "+f1.String()+" "+f2.String(), []sod.Object{e.rec(f1), e.rec(f2)}
			case x < 65 && len(known) > 0:
				u := known[r.Intn(len(known))]
				cl.kind, cl.line, cl.uuid = "del", fmt.Sprintf("del %d", u), e.ustr(u)
			case x < 80 && len(known) > 0:
				u := known[r.Intn(len(known))]
				cl.kind, cl.line, cl.uuid = "get", fmt.Sprintf("get %d", u), e.ustr(u)
			case x < 88 && len(known) > 0:
				u := known[r.Intn(len(known))]
				cl.kind, cl.line, cl.uuid = "exist", fmt.Sprintf("exist %d", u), e.ustr(u)
			default:
				cl.kind, cl.line = "count", "count"
			}
			calls = append(calls, cl)
		}
	}
	// case tables of every string the concurrent calls carry
	fmt.Fprintln(w, "op dirhash")
	for _, cl := range calls {
		e.oracles(strings.Fields(cl.line))
	}
	fmt.Fprintln(w, "r ok")
	fmt.Fprintln(w, "conc")
	w.Flush()
	db := e.db
	var clock int64
	var wg sync.WaitGroup
	for g := 0; g < G; g++ {
		wg.Add(1)
		go func(g int) {
			defer wg.Done()
			for _, cl := range calls {
				if cl.g != g {
					continue
				}
				cl.inv = atomic.AddInt64(&clock, 1)
				func() {
					defer func() {
						if p := recover(); p != nil {
							cl.err = fmt.Errorf("panic: %v", p)
							cl.kind = "panic"
						}
					}()
					switch cl.kind {
					case "ins":
						cl.err = db.InsertOrUpdate(cl.objs[0])
					case "many":
						cl.n, cl.err = db.InsertOrUpdateMany(cl.objs...)
					case "del":
						o := &shape.Rec{}
						o.Initialize(cl.uuid)
						cl.err = db.Delete(o)
					case "get":
						cl.got, cl.err = db.GetByUUID(&shape.Rec{}, cl.uuid)
					case "exist":
						o := &shape.Rec{}
						o.Initialize(cl.uuid)
						cl.ok, cl.err = db.Exist(o)
					case "count":
						cl.n, cl.err = db.Count(&shape.Rec{})
					}
				}()
				cl.resp = atomic.AddInt64(&clock, 1)
			}
		}(g)
	}
	wg.Wait()
	// the final state, read after everything returned
	fin1 := &linCall{g: 9, kind: "count", line: "count"}
	fin1.inv = atomic.AddInt64(&clock, 1)
	fin1.n, fin1.err = db.Count(&shape.Rec{})
	fin1.resp = atomic.AddInt64(&clock, 1)
	fin2 := &linCall{g: 9, kind: "all", line: "all"}
	fin2.inv = atomic.AddInt64(&clock, 1)
	fin2.all, fin2.err = db.All(&shape.Rec{})
	fin2.resp = atomic.AddInt64(&clock, 1)
	calls = append(calls, fin1, fin2)
	for _, cl := range calls {
		obs := ""
		switch cl.kind {
		case "panic":
			obs = "r panic"
		case "ins", "del":
			obs = "r " + cls(cl.err)
		case "many":
			obs = fmt.Sprintf("r %s %d", cls(cl.err), cl.n)
		case "get":
			if cl.err != nil {
				obs = "r " + cls(cl.err)
			} else {
				obs = "r ok " + e.flat(cl.got).String()
			}
		case "exist":
			if cl.err != nil {
				obs = "r " + cls(cl.err) + " 0"
			} else {
				obs = "r ok " + b2s(cl.ok)
			}
		case "count":
			if cl.err != nil {
				obs = "r " + cls(cl.err) + " 0"
			} else {
				obs = fmt.Sprintf("r ok %d", cl.n)
			}
		case "all":
			if cl.err != nil {
				obs = "r " + rd(cls(cl.err))
			} else {
				fl := make([]Flat, 0, len(cl.all))
				for _, o := range cl.all {
					fl = append(fl, e.flat(o))
				}
				sort.Slice(fl, func(i, j int) bool { return fl[i].U < fl[j].U })
				ss := make([]string, len(fl))
				for i := range fl {
					ss[i] = fl[i].String()
				}
				obs = strings.TrimSpace(fmt.Sprintf("r ok %d %s", len(fl), strings.Join(ss, " ")))
			}
		}
		fmt.Fprintf(w, "c %d %d %d %s => %s\n", cl.g, cl.inv, cl.resp, cl.line, obs)
	}
	db.Close()
	e.drainFlushers()
	fmt.Fprintf(w, "end %d\n", id)
}
