// Package shape declares the object types the harness stores through sod's public API.
// The Coq model sees a Rec as a flat list of 18 scalar keys (Paths order) plus an opaque
// "rest" token (nil-ness of N / N.D and the non-scalar payload Sl, M, P).
package shape

import (
	"errors"
	"time"

	"github.com/0xrawsec/sod"
)

type Deep struct {
	Z float64
	W string
}
type Nested struct {
	X int32
	Y string
	D *Deep
}
type Inner struct {
	P int
	Q string
}
type Emb struct{ E uint16 }

type Rec struct {
	sod.Item
	Emb
	A  int64
	B  int8
	U  uint64
	V  uint32
	F  float64
	G  float32
	S  string
	K  string
	T  time.Time
	N  *Nested
	NV Inner
	TM int
	VM int
	Sl []string
	M  map[string]int
	P  *int
}

// Paths: the scalar field paths in model order; Kinds: i(nt) u(int) f(loat) s(tring)
var Paths = []string{"A", "B", "U", "V", "F", "G", "S", "K", "T", "N.X", "N.Y", "N.D.Z", "N.D.W", "NV.P", "NV.Q", "Emb.E", "TM", "VM"}
var Kinds = "iiuuffssiisfsisuii"

const (
	FA = iota
	FB
	FU
	FV
	FF
	FG
	FS
	FK
	FT
	FNX
	FNY
	FNDZ
	FNDW
	FNVP
	FNVQ
	FE
	FTM
	FVM
	NF
)

var ErrRule = errors.New("rule")

// Transform / Validate are driven by the TM / VM fields (mirrored by coq/Model/Instance.v)
func (r *Rec) Transform() {
	switch r.TM {
	case 1:
		r.S += "x"
	case 2:
		r.A ^= 1
	case 3:
		r.K = r.K + "#" + r.S
	}
}

func (r *Rec) Validate() error {
	switch r.VM {
	case 1:
		if len(r.S)%2 == 1 {
			return ErrRule
		}
	case 2:
		if r.A&1 == 1 {
			return ErrRule
		}
	case 3:
		return ErrRule
	case 9:
		// concurrent workloads only: a slow hook widens every window between two phases of a call
		time.Sleep(200 * time.Microsecond)
	}
	return nil
}

// Other is a second collection, used as the wrong-type batch member
type Other struct {
	sod.Item
	A int
}

// Named: a collection whose struct has fields of NAMED basic types (an enum, a time.Duration): their
// Go type names are part of the field descriptors written to schema.json, hence of the persistent
// format (C18). Not indexed: the pinned release cannot index values of named types.
type Severity int

type Named struct {
	sod.Item
	Sev   Severity
	Dur   time.Duration
	Label string
	Tags  []Severity
}
