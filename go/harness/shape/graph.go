package shape

import "github.com/0xrawsec/sod"

// Graph: object shapes for C14 (isolation of stored values): arrays of pointers and of slices,
// slices of pointers inside a map, maps inside a slice, pointer chains, interface fields holding
// each container kind, nested structs by value and by pointer, one unexported pointer (the
// documented exception of cloneValue: it stays shared).
type Leaf struct {
	V int
	P *int
	S []int
}

// Meta is embedded (anonymously) in Graph: an embedded struct other than sod.Item that carries mutable
// content of its own must be deep-copied like any other field
type Meta struct {
	MT []int
	MP *int
	MM map[string]int
}

type Graph struct {
	sod.Item
	Meta
	N  int `sod:"index"`
	A  [2]*int
	B  [2][]int
	MS map[string][]*int
	SM []map[string]*int
	PP **int
	I  interface{}
	L  Leaf
	LP *Leaf
	SL []Leaf
	u  *int
}

func (g *Graph) SetU(p *int) { g.u = p }
func (g *Graph) U() *int     { return g.u }
