package main

// C14: isolation of stored values.
//  (1) alias correspondence: random Graph values are cloned by the implementation's CloneObject;
//      original and clone are printed as value graphs with identities (pointer / backing array /
//      map identities numbered by one table); the driver runs the MODEL's clone on the same
//      original and compares sharing bits, distinctness and erased shape.
//  (2) direct oracle through the DB: store, mutate every reachable cell of the caller's object
//      and of objects returned by reads, read again: nothing may change (cache / async on, off).

import (
	"bufio"
	"encoding/json"
	"fmt"
	"math/rand"
	"os"
	"reflect"
	"sort"
	"strings"
	"time"

	"github.com/0xrawsec/sod"
	"github.com/0xrawsec/sod/vshim"

	"verif/harness/shape"
)

func ipn(r *rand.Rand) *int {
	if r.Intn(4) == 0 {
		return nil
	}
	v := r.Intn(100)
	return &v
}

func genGraph(r *rand.Rand) *shape.Graph {
	g := &shape.Graph{N: r.Intn(5)}
	if r.Intn(3) > 0 {
		g.Meta = shape.Meta{MT: []int{r.Intn(9), r.Intn(9)}, MP: ipn(r), MM: map[string]int{"m": r.Intn(9)}}
	}
	g.A = [2]*int{ipn(r), ipn(r)}
	for i := range g.B {
		if r.Intn(3) > 0 {
			g.B[i] = []int{r.Intn(9), r.Intn(9)}
		}
	}
	if r.Intn(4) > 0 {
		g.MS = map[string][]*int{}
		for _, k := range []string{"a", "b"}[:1+r.Intn(2)] {
			g.MS[k] = []*int{ipn(r), ipn(r)}
		}
	}
	if r.Intn(4) > 0 {
		g.SM = []map[string]*int{{"x": ipn(r)}, nil, {"y": ipn(r), "z": ipn(r)}}[:1+r.Intn(3)]
	}
	if r.Intn(3) > 0 {
		p := ipn(r)
		g.PP = &p
	}
	switch r.Intn(7) {
	case 1:
		v := r.Intn(100)
		g.I = &v // never a typed nil: cloneValue turns it into a nil interface (JSON-equal, outside the model)
	case 2:
		g.I = []int{1, 2, 3}
	case 3:
		g.I = map[string]int{"q": 1}
	case 4:
		g.I = shape.Leaf{V: 3, P: ipn(r), S: []int{4}}
	case 5:
		g.I = [2]*int{ipn(r), ipn(r)}
	case 6:
		g.I = &shape.Leaf{V: 5, P: ipn(r)}
	}
	g.L = shape.Leaf{V: r.Intn(9), P: ipn(r)}
	if r.Intn(2) == 0 {
		g.L.S = []int{7, 8}
	}
	if r.Intn(3) > 0 {
		g.LP = &shape.Leaf{V: r.Intn(9), P: ipn(r), S: []int{1}}
	}
	if r.Intn(3) > 0 {
		g.SL = []shape.Leaf{{V: 1, P: ipn(r)}, {V: 2, S: []int{3}}}[:1+r.Intn(2)]
	}
	if r.Intn(2) == 0 {
		g.SetU(ipn(r))
	}
	// empty but non-nil containers: a clone (hence a cached read) must keep them non-nil, as a round
	// trip through the file does ([] / {} and not null)
	if r.Intn(3) == 0 {
		switch r.Intn(5) {
		case 0:
			g.B[r.Intn(len(g.B))] = []int{}
		case 1:
			g.MS = map[string][]*int{}
		case 2:
			g.SM = []map[string]*int{}
		case 3:
			g.L.S = []int{}
		case 4:
			if g.MS != nil {
				g.MS["e"] = []*int{}
			}
			if len(g.SM) > 0 {
				g.SM[0] = map[string]*int{}
			}
		}
	}
	return g
}

type idtab map[uintptr]int

func (t idtab) id(p uintptr) int {
	if n, ok := t[p]; ok {
		return n
	}
	t[p] = len(t) + 1
	return len(t)
}

// an empty slice of capacity 0 has no cell to share; the runtime gives all of them the same base
// address, so each occurrence gets an identity of its own
func (t idtab) fresh() int {
	t[^uintptr(len(t))] = len(t) + 1
	return len(t)
}

func strHash(s string) int {
	h := 0
	for _, c := range []byte(s) {
		h = (h*31 + int(c)) % 1000003
	}
	return h
}

// sexp: the value graph of v with identities from t
func sexp(v reflect.Value, t idtab) string {
	switch v.Kind() {
	case reflect.Ptr:
		if v.IsNil() {
			return "(p0)"
		}
		return fmt.Sprintf("(p %d %s)", t.id(v.Pointer()), sexp(v.Elem(), t))
	case reflect.Slice:
		if v.IsNil() {
			return "(l0)"
		}
		var es []string
		for i := 0; i < v.Len(); i++ {
			es = append(es, sexp(v.Index(i), t))
		}
		if v.Len() == 0 && v.Cap() == 0 {
			return fmt.Sprintf("(l %d )", t.fresh())
		}
		return fmt.Sprintf("(l %d %s)", t.id(v.Pointer()), strings.Join(es, " "))
	case reflect.Map:
		if v.IsNil() {
			return "(m0)"
		}
		keys := v.MapKeys()
		sort.Slice(keys, func(i, j int) bool { return keys[i].String() < keys[j].String() })
		var bs []string
		for _, k := range keys {
			bs = append(bs, fmt.Sprintf("(%d %s)", strHash(k.String()), sexp(v.MapIndex(k), t)))
		}
		return fmt.Sprintf("(m %d %s)", t.id(v.Pointer()), strings.Join(bs, " "))
	case reflect.Struct:
		var fs []string
		for i := 0; i < v.NumField(); i++ {
			e := 0
			if v.Type().Field(i).IsExported() {
				e = 1
			}
			fs = append(fs, fmt.Sprintf("(%d %s)", e, sexp(v.Field(i), t)))
		}
		return "(t " + strings.Join(fs, " ") + ")"
	case reflect.Array:
		var es []string
		for i := 0; i < v.Len(); i++ {
			es = append(es, sexp(v.Index(i), t))
		}
		return "(a " + strings.Join(es, " ") + ")"
	case reflect.Interface:
		if v.IsNil() {
			return "(i0)"
		}
		return "(i " + sexp(v.Elem(), t) + ")"
	case reflect.String:
		return fmt.Sprintf("(s %d)", strHash(v.String()))
	case reflect.Int, reflect.Int64, reflect.Int32, reflect.Int8, reflect.Int16:
		return fmt.Sprintf("(s %d)", v.Int())
	}
	return "(s 0)"
}

// mutateAll changes every cell reachable from g through exported fields
func mutateAll(g *shape.Graph) {
	for i := range g.MT {
		g.MT[i] += 1000
	}
	if g.MP != nil {
		*g.MP += 1000
	}
	if g.MM != nil {
		g.MM["m"] += 1000
		g.MM["new"] = 1
	}
	for i := range g.A {
		if g.A[i] != nil {
			*g.A[i] += 1000
		}
	}
	for i := range g.B {
		for j := range g.B[i] {
			g.B[i][j] += 1000
		}
	}
	for k, s := range g.MS {
		for _, p := range s {
			if p != nil {
				*p += 1000
			}
		}
		g.MS[k+"!"] = nil
	}
	for _, m := range g.SM {
		for _, p := range m {
			if p != nil {
				*p += 1000
			}
		}
		if m != nil {
			m["new"] = nil
		}
	}
	if g.PP != nil && *g.PP != nil {
		**g.PP += 1000
	}
	switch x := g.I.(type) {
	case *int:
		if x != nil {
			*x += 1000
		}
	case []int:
		x[0] += 1000
	case map[string]int:
		x["q"] += 1000
	case *shape.Leaf:
		x.V += 1000
		if x.P != nil {
			*x.P += 1000
		}
	case [2]*int:
		if x[0] != nil {
			*x[0] += 1000
		}
	case shape.Leaf:
		if x.P != nil {
			*x.P += 1000
		}
		if len(x.S) > 0 {
			x.S[0] += 1000
		}
	}
	if g.L.P != nil {
		*g.L.P += 1000
	}
	for i := range g.L.S {
		g.L.S[i] += 1000
	}
	if g.LP != nil {
		g.LP.V += 1000
		if g.LP.P != nil {
			*g.LP.P += 1000
		}
		for i := range g.LP.S {
			g.LP.S[i] += 1000
		}
	}
	for i := range g.SL {
		g.SL[i].V += 1000
		if g.SL[i].P != nil {
			*g.SL[i].P += 1000
		}
		for j := range g.SL[i].S {
			g.SL[i].S[j] += 1000
		}
	}
	g.N += 1000
}

func gjson(g sod.Object) string {
	gg := *(g.(*shape.Graph))
	gg.SetU(nil)
	b, _ := json.Marshal(&gg)
	return string(b)
}

func runClone(w *bufio.Writer, seed int64, n int) {
	r := rand.New(rand.NewSource(seed))
	// (1) alias correspondence
	for i := 0; i < n; i++ {
		g := genGraph(r)
		g.Initialize(fmt.Sprintf("%08x-0000-4000-a000-%012x", i, i))
		t := idtab{}
		fmt.Fprintf(w, "orig %s\n", sexp(reflect.ValueOf(g).Elem(), t))
		c := sod.VerifCloneObject(g)
		fmt.Fprintf(w, "clone %s\n", sexp(reflect.ValueOf(c).Elem(), t))
	}
	// (2) mutate-after-store / mutate-after-read through the DB, every configuration
	vshim.SetVirtual(false)
	for ci := 0; ci < 4; ci++ {
		root, _ := os.MkdirTemp("", "hzk")
		db := sod.Open(root)
		s := sod.DefaultSchema
		s.Cache = ci&1 == 1
		if ci&2 == 2 {
			s.Asynchrone(1000, time.Hour)
		}
		if err := db.Create(&shape.Graph{}, s); err != nil {
			fmt.Fprintf(w, "! C14 create: %v\n", err)
		}
		for i := 0; i < n/4+1; i++ {
			g := genGraph(r)
			g.SetU(nil)
			switch g.I.(type) {
			case shape.Leaf, *shape.Leaf:
				// a struct behind an interface does not survive a JSON round trip as itself
				// (it comes back as a map): outside "supported kinds" for the file comparison
				g.I = []int{1, 2, 3}
			}
			if err := db.InsertOrUpdate(g); err != nil {
				fmt.Fprintf(w, "! C14 insert: %v\n", err)
				continue
			}
			want := gjson(g)
			mutateAll(g) // the caller keeps playing with what it passed in
			r1, err := db.GetByUUID(&shape.Graph{}, g.UUID())
			if err != nil {
				fmt.Fprintf(w, "! C14 get: %v\n", err)
				continue
			}
			if got := gjson(r1); got != want {
				fmt.Fprintf(w, "! C14 cfg(cache=%v async=%v): mutating the object after storing it changed what a read returns: got %s want %s\n", s.Cache, ci&2 == 2, got, want)
			}
			mutateAll(r1.(*shape.Graph)) // ... and with what a read returned
			r2, err := db.GetByUUID(&shape.Graph{}, g.UUID())
			if err != nil {
				fmt.Fprintf(w, "! C14 get: %v\n", err)
				continue
			}
			if got := gjson(r2); got != want {
				fmt.Fprintf(w, "! C14 cfg(cache=%v async=%v): mutating an object returned by a read changed what the next read returns: got %s want %s\n", s.Cache, ci&2 == 2, got, want)
			}
			all, _ := db.All(&shape.Graph{})
			for _, o := range all {
				if o.UUID() == g.UUID() {
					mutateAll(o.(*shape.Graph))
				}
			}
			sr, _ := db.Search(&shape.Graph{}, "N", ">=", 0).Collect()
			for _, o := range sr {
				if o.UUID() == g.UUID() && gjson(o) != want {
					fmt.Fprintf(w, "! C14 cfg(cache=%v async=%v): a search returned a value changed through an earlier read\n", s.Cache, ci&2 == 2)
				}
			}
			// a cached read equals a round trip through the file
			db.FlushAllAndCommit(&shape.Graph{})
			db2 := sod.Open(root)
			r3, err := db2.GetByUUID(&shape.Graph{}, g.UUID())
			if err != nil {
				fmt.Fprintf(w, "! C14 get from a second handle: %v\n", err)
			} else if gjson(r3) != want {
				fmt.Fprintf(w, "! C14 cfg(cache=%v async=%v): the cached value differs from the round trip through the file: file %s cached %s\n", s.Cache, ci&2 == 2, gjson(r3), want)
			}
			// the FIRST read of a handle with a cold cache: what it returns must not be the cached entry
			if r3 != nil && err == nil {
				mutateAll(r3.(*shape.Graph))
				r4, err4 := db2.GetByUUID(&shape.Graph{}, g.UUID())
				if err4 != nil {
					fmt.Fprintf(w, "! C14 second get from a second handle: %v\n", err4)
				} else if gjson(r4) != want {
					fmt.Fprintf(w, "! C14 cfg(cache=%v async=%v): mutating the object returned by the first (cache-miss) read of a fresh handle changed what its next read returns: got %s want %s\n", s.Cache, ci&2 == 2, gjson(r4), want)
				}
				a2, _ := db2.All(&shape.Graph{})
				for _, o := range a2 {
					mutateAll(o.(*shape.Graph))
				}
				if r5, err5 := db2.GetByUUID(&shape.Graph{}, g.UUID()); err5 == nil && gjson(r5) != want {
					fmt.Fprintf(w, "! C14 cfg(cache=%v async=%v): mutating objects returned by All on a fresh handle changed what a read returns\n", s.Cache, ci&2 == 2)
				}
			}
			db2.Close()
			// a read INTO the caller's memory (GetByUUID / Get given an object that already holds data:
			// an older copy being refreshed): what comes back, and what every later read returns, is the
			// stored value, not a mix with the caller's memory
			db3 := sod.Open(root)
			mine := genGraph(r)
			mine.SetU(nil)
			mutateAll(mine)
			if r6, err := db3.GetByUUID(mine, g.UUID()); err != nil {
				fmt.Fprintf(w, "! C14 get into a held object: %v\n", err)
			} else {
				if gjson(r6) != want {
					fmt.Fprintf(w, "! C14 cfg(cache=%v async=%v): GetByUUID into an object that holds data returns a mix of the stored value and of the caller's memory: got %s want %s\n", s.Cache, ci&2 == 2, gjson(r6), want)
				}
				if r7, err7 := db3.GetByUUID(&shape.Graph{}, g.UUID()); err7 == nil && gjson(r7) != want {
					fmt.Fprintf(w, "! C14 cfg(cache=%v async=%v): after a read into an object that holds data, later reads return %s instead of the stored %s\n", s.Cache, ci&2 == 2, gjson(r7), want)
				}
				held := genGraph(r)
				held.SetU(nil)
				held.Initialize(g.UUID())
				if r8, err8 := db3.Get(held); err8 == nil && gjson(r8) != want {
					fmt.Fprintf(w, "! C14 cfg(cache=%v async=%v): Get into an object that holds data returns %s instead of the stored %s\n", s.Cache, ci&2 == 2, gjson(r8), want)
				}
			}
			db3.Close()
			fmt.Fprintf(w, "probe ok\n")
		}
		db.Close()
		os.RemoveAll(root)
	}
}
