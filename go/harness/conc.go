package main

// Concurrent workloads (C08 dynamic half, C09 watchdog). Several goroutines use ONE handle
// through the public API while the real flusher runs (real clock, short timeout). Built with
// -race the detector's reports are the verdict; in addition:
//   - every goroutine owns a disjoint set of objects (own uuids, own unique-key space), so its
//     own reads must return its own last accepted write whatever the others do (per-object
//     sequential consistency, a consequence of linearizability), and
//   - after Close and reopen the collection must hold exactly the union of the goroutines' last
//     accepted writes (the final state of SOME sequential order: all orders agree here);
//   - a workload that does not finish within the watchdog is a hang.

import (
	"bufio"
	"fmt"
	"io"
	"math/rand"
	"os"
	"path/filepath"
	"runtime"
	"sync"
	"time"

	"github.com/0xrawsec/sod"
	"github.com/0xrawsec/sod/vshim"

	"verif/harness/shape"
)

func runConc(w *bufio.Writer, id int, seed int64) (fails int) {
	r := rand.New(rand.NewSource(seed))
	root, _ := os.MkdirTemp("", "hzc")
	defer os.RemoveAll(root)
	vshim.SetVirtual(false)
	p := profile("C02")
	c := genCfg(r, p)
	c.Lower = false
	// unique only on K (each goroutine has its own key space)
	for i := range c.Cons {
		fl := []byte(c.Cons[i])
		fl[1] = '0'
		c.Cons[i] = string(fl)
	}
	c.Cons[shape.FK] = "1100"
	// NV.Q tags every object with the goroutine that owns it (no case constraint; indexed in most workloads):
	// a non-unique key with many duplicates, whose matched range moves whenever another goroutine writes
	c.Cons[shape.FNVQ] = "0000"
	if r.Intn(4) != 0 {
		c.Cons[shape.FNVQ] = "1000"
	}
	if r.Intn(3) == 0 {
		c.Async = true
		c.Thr = 1 + r.Intn(6)
		c.To = 1
	}
	fail := func(format string, a ...interface{}) {
		fails++
		fmt.Fprintf(w, "! C08 workload %d (%s): %s\n", id, c.Lines()[0], fmt.Sprintf(format, a...))
	}
	sod.LowercaseNames = false
	e := NewExec(root, c, bufio.NewWriter(io.Discard), seed)
	db := sod.Open(root)
	if err := db.Create(&shape.Rec{}, e.schemaWith(c)); err != nil {
		fail("create: %v", err)
		return
	}
	G := 3 + r.Intn(5)
	type own struct {
		live map[string]*shape.Rec // uuid -> last accepted value
	}
	owns := make([]own, G)
	// CONTENDED unique keys: every goroutine tries to insert NEW objects holding keys of one small
	// shared pool (never updated, never deleted afterwards). Linearizability of InsertOrUpdate
	// with a unique constraint: at most one insert per shared key may ever succeed, whatever the
	// interleaving, and the winners are in the final state.
	sharedWin := map[string]string{} // shared key -> uuid of the accepted object
	sharedLive := map[string]*shape.Rec{}
	var mu sync.Mutex // only guards the test's own bookkeeping of failures
	var wg sync.WaitGroup
	done := make(chan struct{})
	reopenAt := -1
	if r.Intn(2) == 0 {
		reopenAt = 0 // all goroutines hit a freshly opened handle at once (lazy schema load)
		db.Close()
		db = sod.Open(root)
	}
	_ = reopenAt
	for g := 0; g < G; g++ {
		owns[g].live = map[string]*shape.Rec{}
		wg.Add(1)
		go func(g int, seed int64) {
			defer wg.Done()
			defer func() {
				if p := recover(); p != nil {
					mu.Lock()
					fail("goroutine %d panicked: %v", g, p)
					mu.Unlock()
				}
			}()
			rr := rand.New(rand.NewSource(seed))
			my := owns[g].live
			keyN := 0
			ownQ := fmt.Sprintf("own-g%d", g)
			for k := 0; k < 40; k++ {
				switch x := rr.Intn(100); {
				case x < 30: // insert a new own object
					rec := flatToRec(genRec(rr, c))
					rec.TM, rec.VM = 0, 0
					keyN++
					rec.K = fmt.Sprintf("g%d-%d", g, keyN)
					rec.NV.Q = ownQ
					if err := db.InsertOrUpdate(rec); err != nil {
						mu.Lock()
						fail("goroutine %d: insert of an own object failed: %v", g, err)
						mu.Unlock()
					} else {
						cp := *rec
						my[rec.UUID()] = &cp
					}
				case x < 45 && len(my) > 0: // update an own object
					for u, old := range my {
						rec := flatToRec(genRec(rr, c))
						rec.TM, rec.VM = 0, 0
						rec.K = old.K
						rec.NV.Q = ownQ
						rec.Initialize(u)
						if err := db.InsertOrUpdate(rec); err != nil {
							mu.Lock()
							fail("goroutine %d: update of an own object failed: %v", g, err)
							mu.Unlock()
						} else {
							cp := *rec
							my[u] = &cp
						}
						break
					}
				case x < 55 && len(my) > 0: // delete an own object
					for u := range my {
						o := &shape.Rec{}
						o.Initialize(u)
						if err := db.Delete(o); err != nil {
							mu.Lock()
							fail("goroutine %d: delete failed: %v", g, err)
							mu.Unlock()
						}
						delete(my, u)
						break
					}
				case x < 66 && len(my) > 0: // read an own object: must be the last accepted write
					for u, want := range my {
						o, err := db.GetByUUID(&shape.Rec{}, u)
						if err != nil {
							mu.Lock()
							fail("goroutine %d: own object %s not readable: %v", g, u, err)
							mu.Unlock()
						} else if got := recToFlat(o.(*shape.Rec), 0).String(); got != recToFlat(flatToRecCanon(e, want), 0).String() {
							mu.Lock()
							fail("goroutine %d: own object %s read back as %s want %s", g, u, got, recToFlat(flatToRecCanon(e, want), 0).String())
							mu.Unlock()
						}
						if ok, err := db.Exist(o); err != nil || !ok {
							mu.Lock()
							fail("goroutine %d: Exist(own object) = %v, %v", g, ok, err)
							mu.Unlock()
						}
						break
					}
				case x < 71: // race for a shared unique key
					rec := flatToRec(genRec(rr, c))
					rec.TM, rec.VM = 0, 0
					rec.K = fmt.Sprintf("round-%d", k/3) // every goroutine reaches round k/3 at about the same time
					rec.NV.Q = "shared"
					if err := db.InsertOrUpdate(rec); err == nil {
						mu.Lock()
						if prev, dup := sharedWin[rec.K]; dup {
							fail("not linearizable: two inserts of the unique key %q were both accepted (objects %s and %s)", rec.K, prev, rec.UUID())
						}
						sharedWin[rec.K] = rec.UUID()
						cp := *rec
						sharedLive[rec.UUID()] = &cp
						mu.Unlock()
					}
				case x < 77: // a BATCH racing for a shared unique key: all-or-nothing must survive concurrency
					own := flatToRec(genRec(rr, c))
					own.TM, own.VM = 0, 9 // slow Validate: the batch stays long between its phases
					keyN++
					own.K = fmt.Sprintf("g%d-%d", g, keyN)
					own.NV.Q = ownQ
					sh := flatToRec(genRec(rr, c))
					sh.TM, sh.VM = 0, 0
					sh.K = fmt.Sprintf("round-%d", k/3)
					sh.NV.Q = "shared"
					n, err := db.InsertOrUpdateMany(own, sh)
					if err != nil {
						if n != 0 {
							mu.Lock()
							fail("not linearizable: InsertOrUpdateMany failed (%v) but reports %d objects inserted", err, n)
							mu.Unlock()
						}
						if _, e2 := db.GetByUUID(&shape.Rec{}, own.UUID()); e2 == nil {
							mu.Lock()
							fail("not linearizable: InsertOrUpdateMany failed (%v) yet its first member %s is stored", err, own.UUID())
							mu.Unlock()
							cp := *own
							my[own.UUID()] = &cp // keep the bookkeeping of the final state exact
						}
					} else {
						cp := *own
						my[own.UUID()] = &cp
						mu.Lock()
						if prev, dup := sharedWin[sh.K]; dup {
							fail("not linearizable: the unique key %q was accepted twice (objects %s and %s)", sh.K, prev, sh.UUID())
						}
						sharedWin[sh.K] = sh.UUID()
						cp2 := *sh
						sharedLive[sh.UUID()] = &cp2
						mu.Unlock()
					}
				case x < 80: // chained search refinements while others write
					fld := rr.Intn(NF)
					s := db.Search(&shape.Rec{}, shape.Paths[fld], ">=", keyValue(genRec(rr, c).K[fld], fld, false))
					f2 := rr.Intn(NF)
					s = s.And(shape.Paths[f2], "<=", keyValue(genRec(rr, c).K[f2], f2, false))
					f3 := rr.Intn(NF)
					s = s.Or(shape.Paths[f3], "=", keyValue(genRec(rr, c).K[f3], f3, false))
					s.Len()
					s.Limit(3).Collect() // errors are legitimate (objects deleted meanwhile)
				case x < 83:
					// a KEPT search value on the goroutine's own tag, used after the others have written: only this
					// goroutine writes objects carrying the tag, so in every sequential order of the calls the value
					// denotes exactly its own live objects, whatever entries the others move in the index meanwhile
					s := db.Search(&shape.Rec{}, "NV.Q", "=", ownQ)
					time.Sleep(time.Duration(rr.Intn(3)) * time.Millisecond)
					runtime.Gosched()
					n := s.Len()
					objs, err := s.Collect()
					mu.Lock()
					if err != nil {
						fail("goroutine %d: kept search on its own tag failed: %v", g, err)
					} else if n != len(my) || len(objs) != len(my) {
						fail("not linearizable: goroutine %d: a kept search on its own tag %q denotes %d objects (Len %d), it owns %d", g, ownQ, len(objs), n, len(my))
					} else {
						for _, o := range objs {
							if _, ok := my[o.UUID()]; !ok || o.(*shape.Rec).NV.Q != ownQ {
								fail("not linearizable: goroutine %d: a kept search on its own tag %q returned object %s tagged %q", g, ownQ, o.UUID(), o.(*shape.Rec).NV.Q)
								break
							}
						}
					}
					mu.Unlock()
				case x < 85:
					var tgt []*shape.Rec
					db.AssignAll(&shape.Rec{}, &tgt)
				case x < 87:
					db.All(&shape.Rec{})
				case x < 90:
					db.Count(&shape.Rec{})
				case x < 93:
					var t []string
					if c.indexed(shape.FK) {
						db.AssignIndex(&shape.Rec{}, "K", &t)
					}
				case x < 96:
					db.Commit(&shape.Rec{})
				default:
					db.FlushAll(&shape.Rec{})
				}
			}
		}(g, seed*31+int64(g))
	}
	go func() { wg.Wait(); close(done) }()
	select {
	case <-done:
	case <-time.After(90 * time.Second):
		fmt.Fprintf(w, "! C09 workload %d (%s): calls still blocked after 90s (deadlock)\n", id, c.Lines()[0])
		fmt.Fprintf(w, "! C08 workload %d: hang\n", id)
		w.Flush()
		os.Exit(4)
	}
	if err := db.Close(); err != nil {
		fail("close: %v", err)
	}
	db2 := sod.Open(root)
	objs, err := db2.All(&shape.Rec{})
	if err != nil {
		fail("All after reopen: %v", err)
	}
	got := map[string]string{}
	for _, o := range objs {
		got[o.UUID()] = recToFlat(o.(*shape.Rec), 0).String()
	}
	want := map[string]string{}
	for g := range owns {
		for u, rec := range owns[g].live {
			want[u] = recToFlat(flatToRecCanon(e, rec), 0).String()
		}
	}
	for u, rec := range sharedLive {
		want[u] = recToFlat(flatToRecCanon(e, rec), 0).String()
	}
	if len(got) != len(want) {
		fail("final state: %d objects stored, want %d", len(got), len(want))
	}
	for u, v := range want {
		if got[u] != v {
			fail("final state: object %s is %q want %q", u, got[u], v)
			break
		}
	}
	if err := db2.Control(); err != nil {
		fail("Control after the workload: %v", err)
	}
	db2.Count(&shape.Rec{})
	if err := db2.Control(); err != nil {
		fail("Control after the workload: %v", err)
	}
	db2.Close()
	// Drop while the asynchronous-write routine and writers are at work: once Drop has returned and the
	// writers have stopped, nothing may write the database back (a final state no sequential order gives)
	for wave := 0; wave < 4 && fails == 0; wave++ {
		msgs := make([]string, 8)
		var pw sync.WaitGroup
		for k := range msgs {
			pw.Add(1)
			go func(k int) {
				defer pw.Done()
				msgs[k] = dropProbe(seed*97 + int64(wave*8+k))
			}(k)
		}
		pw.Wait()
		for _, msg := range msgs {
			if msg != "" {
				fail("%s", msg)
				break
			}
		}
	}
	fmt.Fprintf(w, "conc %d goroutines=%d objects=%d fails=%d cfg=%s\n", id, G, len(want), fails, c.Lines()[0])
	return
}

func dropProbe(seed int64) string {
	root, _ := os.MkdirTemp("", "hzd")
	os.RemoveAll(root) // Open creates nothing; Create makes the directories
	defer os.RemoveAll(root)
	db := sod.Open(root)
	s := sod.DefaultSchema
	s.Asynchrone(1, time.Hour)
	if err := db.Create(&shape.Rec{}, s); err != nil {
		return "drop probe: create: " + err.Error()
	}
	stop := make(chan struct{})
	var wg sync.WaitGroup
	for g := 0; g < 3; g++ {
		wg.Add(1)
		go func(g int) {
			defer wg.Done()
			for i := 0; ; i++ {
				select {
				case <-stop:
					return
				default:
				}
				db.InsertOrUpdate(&shape.Rec{A: int64(g*100000 + i), K: fmt.Sprintf("d%d-%d", g, i)})
			}
		}(g)
	}
	time.Sleep(time.Duration(20+seed%30) * time.Millisecond)
	if err := db.Drop(); err != nil {
		close(stop)
		wg.Wait()
		return "drop probe: Drop: " + err.Error()
	}
	close(stop)
	wg.Wait()
	time.Sleep(350 * time.Millisecond) // more than three periods of the routine
	if ents, err := os.ReadDir(root); err == nil {
		n := 0
		filepath.Walk(root, func(p string, info os.FileInfo, err error) error {
			if err == nil && !info.IsDir() {
				n++
			}
			return nil
		})
		return fmt.Sprintf("after Drop returned (writers stopped, asynchronous writes only), the database directory exists again with %d entries and %d file(s): something wrote after Drop", len(ents), n)
	}
	return ""
}

// flatToRecCanon: the canonical (case-transformed) form of what a goroutine wrote
func flatToRecCanon(e *Exec, r *shape.Rec) *shape.Rec {
	f, _ := e.spec.canon(recToFlat(r, 0))
	return flatToRec(f)
}
