package main

// C19, arguments: whatever field name, operator, probe value and type witness a search (or AssignIndex) is
// given, it returns or reports an error: it never panics. The collection used here has UNEXPORTED fields (a
// pointer that is non-nil in every inserted object, a string), an exported pointer field, the embedded Item:
// names of unexported fields, paths through them, paths that end on a pointer, empty path elements.
// With the cache on, reads are served by private copies that keep unexported content.

import (
	"bufio"
	"fmt"
	"math/rand"
	"os"
	"strings"

	"github.com/0xrawsec/sod"

	"verif/harness/shape"
)

type Priv struct {
	sod.Item
	Name  string `sod:"index"`
	N     int
	owner *shape.Deep
	note  string
	Pub   *shape.Deep
}

var argNames = []string{"owner", "owner.W", "owner.Z", "owner.W.x", "note", "note.x", "Item", "Item.uuid", "uuid", "Item.Item",
	"Pub", "Pub.W", "Pub.Q", "Pub.W.x", "", ".", "Name.", ".Name", "Name.x", "N.x", "nope", "Name", "N"}

func runArgs19(w *bufio.Writer, id int, r *rand.Rand) (fails int) {
	root, _ := os.MkdirTemp("", "hza")
	defer os.RemoveAll(root)
	db := sod.Open(root)
	defer db.Close()
	sc := sod.DefaultSchema
	sc.Cache = r.Intn(2) == 0
	cfg := fmt.Sprintf("cache=%v", sc.Cache)
	if err := db.Create(&Priv{}, sc); err != nil {
		return
	}
	for i, nm := range []string{"a", "b", "c"} {
		o := &Priv{Name: nm, N: i, owner: &shape.Deep{W: "bob"}, note: "n", Pub: &shape.Deep{W: "x"}}
		if i == 2 {
			o.Pub = nil
		}
		db.InsertOrUpdate(o)
	}
	// a first read fills the cache
	db.All(&Priv{})
	probes := []interface{}{"bob", 1, nil, 1.5, &shape.Deep{}, shape.Deep{}, int64(2), "b.*"}
	ops := []string{"=", "!=", "<", "<=", ">", ">=", "~=", "=="}
	guard := func(what string, f func()) {
		defer func() {
			if p := recover(); p != nil {
				fails++
				fmt.Fprintf(w, "! C19 arguments [%s] %s panicked: %s (case %d)\n", cfg, what, strings.ReplaceAll(fmt.Sprint(p), "\n", " "), id)
			}
		}()
		f()
	}
	for k := 0; k < 14; k++ {
		name := argNames[r.Intn(len(argNames))]
		op := ops[r.Intn(len(ops))]
		probe := probes[r.Intn(len(probes))]
		var tmpl sod.Object = &Priv{}
		tn := "&Priv{}"
		if r.Intn(2) == 0 {
			tmpl = &Priv{Name: "t", owner: &shape.Deep{W: "w"}, note: "x", Pub: &shape.Deep{}}
			tn = "&Priv{owner: non-nil, Pub: non-nil}"
		}
		what := fmt.Sprintf("Search(%s, %q, %q, %T)", tn, name, op, probe)
		guard(what, func() {
			s := db.Search(tmpl, name, op, probe)
			objs, _ := s.Collect()
			if s.Err() != nil && len(objs) > 0 {
				fails++
				fmt.Fprintf(w, "! C19 arguments [%s] %s returned objects AND an error (case %d)\n", cfg, what, id)
			}
			s.Len()
			s.One()
		})
		guard(what+" as a refinement", func() {
			s := db.Search(tmpl, "Name", ">=", "a").And(name, op, probe)
			s.Collect()
			s2 := db.Search(tmpl, "Name", "=", "a").Or(name, op, probe)
			s2.Collect()
		})
		guard(fmt.Sprintf("AssignIndex(%s, %q)", tn, name), func() {
			var t []string
			db.AssignIndex(tmpl, name, &t)
		})
	}
	return
}
