module verif/harness

go 1.18

require github.com/0xrawsec/sod v0.0.0

replace github.com/0xrawsec/sod => ../sod
