package main

// C19: malformed files and arguments. A valid database is built, ONE mutation is applied to its
// directory (byte-level or JSON-structure-level on schema.json or an object file, or a stray
// entry), then a battery of API calls runs on a fresh handle, every call under recover() and a
// watchdog. Verdict per call: ok | error class | panic | hang. The property: never panic, never
// hang, never objects out of a search that reported an error.

import (
	"bufio"
	"bytes"
	"compress/gzip"
	"encoding/json"
	"fmt"
	"io"
	"math/rand"
	"os"
	"path/filepath"
	"sort"
	"strings"
	"time"

	"github.com/0xrawsec/sod"
	"github.com/0xrawsec/sod/vshim"

	"verif/harness/shape"
)

// mutateJSON applies one random structural mutation somewhere in a decoded JSON value
func mutateJSON(r *rand.Rand, v interface{}, depth int) (interface{}, string) {
	junk := []interface{}{nil, true, "x", json.Number("1"), json.Number("-1"), json.Number("1.5"), json.Number("1e30"),
		json.Number("18446744073709551616"), []interface{}{}, map[string]interface{}{}, []interface{}{json.Number("1")},
		[]interface{}{"a", json.Number("1"), json.Number("2")}, "int64", "string", "nope"}
	switch x := v.(type) {
	case map[string]interface{}:
		keys := make([]string, 0, len(x))
		for k := range x {
			keys = append(keys, k)
		}
		sort.Strings(keys)
		if len(keys) == 0 || r.Intn(6) == 0 {
			return junk[r.Intn(len(junk))], "replace-object"
		}
		k := keys[r.Intn(len(keys))]
		switch r.Intn(6) {
		case 0:
			delete(x, k)
			return x, "drop-key:" + k
		case 1:
			x[k] = junk[r.Intn(len(junk))]
			return x, "retype:" + k
		case 2:
			k2 := keys[r.Intn(len(keys))]
			x[k], x[k2] = x[k2], x[k]
			return x, "swap:" + k + "," + k2
		case 3:
			x[k+"x"] = x[k]
			delete(x, k)
			return x, "rename-key:" + k
		default:
			nv, what := mutateJSON(r, x[k], depth+1)
			x[k] = nv
			return x, k + "/" + what
		}
	case []interface{}:
		if len(x) == 0 || r.Intn(6) == 0 {
			return junk[r.Intn(len(junk))], "replace-array"
		}
		i := r.Intn(len(x))
		switch r.Intn(7) {
		case 0:
			return append(x[:i], x[i+1:]...), "drop-elem"
		case 1:
			return append(x, x[i]), "dup-elem"
		case 2:
			x[i] = junk[r.Intn(len(junk))]
			return x, "retype-elem"
		case 3:
			j := r.Intn(len(x))
			x[i], x[j] = x[j], x[i]
			return x, "swap-elems"
		case 4:
			return x[:i], "truncate-array"
		default:
			nv, what := mutateJSON(r, x[i], depth+1)
			x[i] = nv
			return x, fmt.Sprintf("[%d]/%s", i, what)
		}
	default:
		return junk[r.Intn(len(junk))], "retype-leaf"
	}
}

func mutateBytes(r *rand.Rand, b []byte) ([]byte, string) {
	if len(b) == 0 {
		return []byte("{"), "fill"
	}
	switch r.Intn(6) {
	case 0:
		return b[:r.Intn(len(b))], "truncate"
	case 1:
		c := append([]byte{}, b...)
		c[r.Intn(len(c))] ^= byte(1 << uint(r.Intn(8)))
		return c, "bitflip"
	case 2:
		return []byte{}, "empty"
	case 3:
		return [][]byte{[]byte("null"), []byte("[]"), []byte("{}"), []byte("\"x\""), []byte("0"), []byte("{\"index\":null}"), []byte("{\"fields\":null,\"index\":{\"fields\":null,\"object-ids\":null}}")}[r.Intn(7)], "replace"
	case 4:
		i := r.Intn(len(b))
		return append(append(append([]byte{}, b[:i]...), []byte("\x00\xff{[")...), b[i:]...), "insert-garbage"
	default:
		i, j := r.Intn(len(b)), r.Intn(len(b))
		if i > j {
			i, j = j, i
		}
		return append(append([]byte{}, b[:i]...), b[j:]...), "cut"
	}
}

func gunzipMaybe(path string, b []byte) []byte {
	if strings.HasSuffix(path, ".gz") {
		zr, err := gzip.NewReader(bytes.NewReader(b))
		if err == nil {
			if d, err := io.ReadAll(zr); err == nil {
				return d
			}
		}
	}
	return b
}

func gzipMaybe(path string, b []byte) []byte {
	if strings.HasSuffix(path, ".gz") {
		var buf bytes.Buffer
		zw := gzip.NewWriter(&buf)
		zw.Write(b)
		zw.Close()
		return buf.Bytes()
	}
	return b
}

func runFuzz19(w *bufio.Writer, id int, seed int64) (fails int) {
	r := rand.New(rand.NewSource(seed))
	root, _ := os.MkdirTemp("", "hzf")
	defer os.RemoveAll(root)
	if kd := os.Getenv("FUZZ19_KEEP"); kd != "" {
		// debugging aid: keep the mutated directory
		defer func() { copyDir(root, kd) }()
	}
	vshim.SetVirtual(true)
	p := profile("C02")
	p.MaxOps = 14
	for _, k := range []string{"search", "and", "or", "collect", "one", "len", "sdel", "delall", "reopen", "closereopen", "getabs"} {
		p.W[k] = 0
	}
	c := genCfg(r, p)
	e := NewExec(root, c, bufio.NewWriter(io.Discard), seed)
	e.virtual = true
	e.Step("create")
	for n := 0; n < p.MaxOps; {
		for _, l := range e.GenOp(r, p) {
			e.Step(l)
			n++
		}
	}
	e.Step("close")
	e.drainFlushers()
	live := e.spec.sortedLive()
	dir := e.colDir()
	// ---- one mutation
	what := ""
	ents, _ := os.ReadDir(dir)
	var objFiles []string
	for _, en := range ents {
		if en.Name() != sod.SchemaFilename && !en.IsDir() {
			objFiles = append(objFiles, en.Name())
		}
	}
	target := sod.SchemaFilename
	kind := r.Intn(10)
	if kind >= 7 && len(objFiles) > 0 {
		target = objFiles[r.Intn(len(objFiles))]
	}
	path := filepath.Join(dir, target)
	switch {
	case kind == 0 && r.Intn(2) == 0 && mutateIndexEntry(r, path, &what):
		// (done: one entry of one field index now holds the value of another entry, or two neighbours are swapped)
	case kind == 6: // stray entries
		switch r.Intn(6) {
		case 0:
			os.WriteFile(filepath.Join(dir, "README"), []byte("x"), 0600)
			what = "stray:nodot"
		case 1:
			os.MkdirAll(filepath.Join(dir, "sub"), 0700)
			what = "stray:subdir-nodot"
		case 2:
			os.MkdirAll(filepath.Join(dir, e.ustr(len(e.uu))+".json"), 0700)
			what = "stray:uuid-dir"
		case 3:
			os.WriteFile(filepath.Join(dir, ".hidden"), []byte("x"), 0600)
			what = "stray:hidden"
		case 4:
			os.WriteFile(filepath.Join(dir, e.ustr(len(e.uu))), []byte("{}"), 0600)
			what = "stray:uuid-noext"
		default:
			os.WriteFile(filepath.Join(dir, e.ustr(len(e.uu))+c.Ext+".bak"), []byte("{}"), 0600)
			what = "stray:uuid-bak"
		}
	case kind <= 3 || (kind >= 7 && r.Intn(2) == 0): // JSON-structure mutation
		raw, err := os.ReadFile(path)
		if err != nil {
			return
		}
		dec := json.NewDecoder(bytes.NewReader(gunzipMaybe(path, raw)))
		dec.UseNumber()
		var v interface{}
		if dec.Decode(&v) != nil {
			return
		}
		var how string
		v, how = mutateJSON(r, v, 0)
		nb, _ := json.Marshal(v)
		os.WriteFile(path, gzipMaybe(path, nb), 0600)
		what = "json:" + target[max0(0, len(target)-12):] + ":" + how
		if target == sod.SchemaFilename {
			what = "json:schema:" + how
		}
	default: // byte-level mutation
		raw, err := os.ReadFile(path)
		if err != nil {
			return
		}
		nb, how := mutateBytes(r, raw)
		os.WriteFile(path, nb, 0600)
		what = "bytes:object:" + how
		if target == sod.SchemaFilename {
			what = "bytes:schema:" + how
		}
	}
	if kd := os.Getenv("FUZZ19_KEEP"); kd != "" {
		copyDir(root, kd+".mutated")
	}
	// ---- battery on a fresh handle
	db := sod.Open(root)
	type res struct{ call, out string }
	var trace []res
	call := func(name string, f func() string) {
		out := "hang"
		done := make(chan struct{})
		go func() {
			defer close(done)
			defer func() {
				if p := recover(); p != nil {
					out = "panic"
					trace = append(trace, res{name + "#stack", strings.ReplaceAll(fmt.Sprint(p), "\n", " ")})
				}
			}()
			out = f()
		}()
		select {
		case <-done:
		case <-time.After(15 * time.Second):
		}
		trace = append(trace, res{name, out})
		if out == "panic" || out == "hang" {
			fails++
		}
	}
	of := func() sod.Object { return &shape.Rec{} }
	pick := func() string {
		if len(live) == 0 {
			return e.ustr(len(e.uu) + 1)
		}
		return e.ustr(live[r.Intn(len(live))])
	}
	call("Schema", func() string { _, err := db.Schema(of()); return cls(err) })
	call("Count", func() string { _, err := db.Count(of()); return cls(err) })
	call("Control", func() string { return cls(db.Control()) })
	call("All", func() string { _, err := db.All(of()); return cls(err) })
	// time passes: whatever the first calls started in the background runs past every timeout (a
	// goroutine started for a schema that was refused would panic here and kill the process)
	call("Ticks", func() string {
		for i := 0; i < 8; i++ {
			if vshim.CountGoroutines("startAsyncWritesRoutine") == 0 {
				break
			}
			if _, ok := vshim.Tick("startAsyncWritesRoutine", time.Second); !ok {
				// the routine does not go to sleep (a threshold or a timeout of 0 in the damaged settings makes it
				// flush and commit in a loop): it is running, not blocked; no call of the API is waiting for it.
				// Observed, outside the property (DESIGN.md section 5); the calls below still have to return.
				return "ok-routine-never-sleeps"
			}
		}
		return "ok"
	})
	call("Get", func() string { _, err := db.GetByUUID(of(), pick()); return cls(err) })
	call("Exist", func() string { o := of(); o.Initialize(pick()); _, err := db.Exist(o); return cls(err) })
	for k := 0; k < 6; k++ {
		f := r.Intn(NF)
		opn := []string{"=", "!=", "<", "<=", ">", ">=", "~="}[r.Intn(7)]
		probe := keyValue(genRec(r, c).K[f], f, false)
		call("Search", func() string {
			s := db.Search(of(), shape.Paths[f], opn, probe)
			f2 := r.Intn(NF)
			s2 := s.And(shape.Paths[f2], ">=", keyValue(genRec(r, c).K[f2], f2, false)).Or(shape.Paths[f], opn, probe)
			objs, err := s2.Collect()
			if s2.Err() != nil && len(objs) > 0 {
				return "objects-from-failed-search"
			}
			if _, e2 := s.One(); e2 != nil && err == nil {
				_ = e2
			}
			s.Len()
			return cls(err)
		})
	}
	// fields that can never be indexed (pointer to scalar, container): every probe type, every operator
	for _, fldp := range []string{"P", "Sl", "M"} {
		for _, probe := range []interface{}{"high", 1.5, uint(3), int(2), int64(-1), true, nil, []int{1}} {
			fldp, probe := fldp, probe
			opn := []string{"=", "!=", "<", ">=", "~="}[r.Intn(5)]
			call("SearchNS", func() string {
				s := db.Search(of(), fldp, opn, probe)
				objs, _ := s.Collect()
				if s.Err() != nil && len(objs) > 0 {
					return "objects-from-failed-search"
				}
				s2 := db.Search(of(), "A", ">=", int64(-5)).And(fldp, opn, probe)
				s2.Collect()
				return cls(s.Err())
			})
		}
	}
	call("AssignIndex", func() string { var t []string; return cls(db.AssignIndex(of(), "K", &t)) })
	call("Insert", func() string { rec := flatToRec(genRec(r, c)); return cls(db.InsertOrUpdate(rec)) })
	call("Update", func() string {
		rec := flatToRec(genRec(r, c))
		rec.Initialize(pick())
		return cls(db.InsertOrUpdate(rec))
	})
	call("Many", func() string {
		_, err := db.InsertOrUpdateMany(flatToRec(genRec(r, c)), flatToRec(genRec(r, c)))
		return cls(err)
	})
	call("Delete", func() string { o := of(); o.Initialize(pick()); return cls(db.Delete(o)) })
	call("Repair", func() string { return cls(db.Repair(of())) })
	call("Control2", func() string { return cls(db.Control()) })
	call("All2", func() string { _, err := db.All(of()); return cls(err) })
	call("SearchDelete", func() string { return cls(db.Search(of(), "A", ">=", int64(0)).Delete()) })
	call("DeleteAll", func() string { return cls(db.DeleteAll(of())) })
	call("Commit", func() string { return cls(db.Commit(of())) })
	call("Close", func() string { return cls(db.Close()) })
	e.drainFlushers()
	var sb []string
	for _, t := range trace {
		sb = append(sb, t.call+"="+t.out)
		if t.out == "panic" || t.out == "hang" || t.out == "objects-from-failed-search" {
			fmt.Fprintf(w, "! C19 mutation %q then %s: %s (seed %d)\n", what, t.call, t.out, seed)
		}
	}
	fmt.Fprintf(w, "fuzz %d mutation=%s %s\n", id, what, strings.Join(sb, " "))
	return
}

// mutateIndexEntry: ONE entry of ONE field index of schema.json gets the value of another entry of that index
// (the last entry half of the time, the first one, any), or two neighbours trade places: the index is no
// longer ordered at exactly one place; everything else in the file is intact
func mutateIndexEntry(r *rand.Rand, path string, what *string) bool {
	raw, err := os.ReadFile(path)
	if err != nil {
		return false
	}
	dec := json.NewDecoder(bytes.NewReader(raw))
	dec.UseNumber()
	var top map[string]interface{}
	if dec.Decode(&top) != nil {
		return false
	}
	index, _ := top["index"].(map[string]interface{})
	fidx, _ := index["fields"].(map[string]interface{})
	var names []string
	for k, v := range fidx {
		fi, _ := v.(map[string]interface{})
		if ents, _ := fi["index"].([]interface{}); len(ents) >= 2 {
			names = append(names, k)
		}
	}
	if len(names) == 0 {
		return false
	}
	sort.Strings(names)
	fi := fidx[names[r.Intn(len(names))]].(map[string]interface{})
	ents := fi["index"].([]interface{})
	pos := len(ents) - 1
	switch r.Intn(4) {
	case 0:
		pos = 0
	case 1:
		pos = r.Intn(len(ents))
	}
	if r.Intn(4) == 0 {
		q := pos - 1
		if q < 0 {
			q = 1
		}
		ents[pos], ents[q] = ents[q], ents[pos]
		*what = fmt.Sprintf("index-entry:swap:%d/%d", pos, len(ents))
	} else {
		other := r.Intn(len(ents))
		if other == pos {
			other = (pos + 1) % len(ents)
		}
		tp, _ := ents[pos].([]interface{})
		to, _ := ents[other].([]interface{})
		if len(tp) != 2 || len(to) != 2 {
			return false
		}
		ents[pos] = []interface{}{to[0], tp[1]}
		*what = fmt.Sprintf("index-entry:value:%d<-%d/%d", pos, other, len(ents))
	}
	nb, _ := json.Marshal(top)
	return os.WriteFile(path, nb, 0600) == nil
}

func max0(a, b int) int {
	if a > b {
		return a
	}
	return b
}
