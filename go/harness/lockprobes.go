package main

// C09: calls that must return. Each probe builds a small database, puts it in a situation where a call could
// wait for another one forever, and runs the call under a watchdog:
//   - Drop while writers and the asynchronous-write routine are at work (threshold 1: the routine asks for the
//     handle lock all the time), and Drop right after a large batch (the routine is waiting for the lock the
//     batch holds when Drop queues behind it);
//   - Close of a handle with TWO asynchronous collections holding pending writes while the storage fails
//     (the database root replaced by a regular file): Close returns the error.
// A call still blocked when the watchdog fires is reported with the probe that was running.

import (
	"bufio"
	"fmt"
	"os"
	"time"

	"github.com/0xrawsec/sod"

	"verif/harness/shape"
)

func watchdog(d time.Duration, f func()) bool {
	done := make(chan struct{})
	go func() {
		defer close(done)
		f()
	}()
	select {
	case <-done:
		return true
	case <-time.After(d):
		return false
	}
}

func dropBatchProbe(k int) bool {
	root, _ := os.MkdirTemp("", "hzl")
	os.RemoveAll(root)
	defer os.RemoveAll(root)
	db := sod.Open(root)
	// (two indexed fields: the batch holds the handle lock for longer than one period of the routine)
	fds := sod.FieldDescriptors(&shape.Rec{})
	fds.Constraint("A", sod.Constraints{Index: true})
	fds.Constraint("K", sod.Constraints{Index: true})
	s := sod.NewCustomSchema(fds, ".json")
	s.Asynchrone(10, time.Hour)
	if err := db.Create(&shape.Rec{}, s); err != nil {
		return true
	}
	objs := make([]sod.Object, 0, 4000)
	for i := 0; i < 2500+500*(k%4); i++ {
		objs = append(objs, &shape.Rec{A: int64(i % 97), K: fmt.Sprintf("b%d", i%13), S: "some text"})
	}
	return watchdog(25*time.Second, func() {
		db.InsertOrUpdateMany(objs...)
		db.Drop()
		db.Count(&shape.Rec{})
	})
}

func closeFailProbe(k int) bool {
	root, _ := os.MkdirTemp("", "hzl")
	os.RemoveAll(root)
	defer os.RemoveAll(root)
	db := sod.Open(root)
	s := sod.DefaultSchema
	s.Asynchrone(1000, time.Hour)
	if db.Create(&shape.Rec{}, s) != nil || db.Create(&shape.Other{}, s) != nil {
		return true
	}
	for i := 0; i < 3+k%3; i++ {
		db.InsertOrUpdate(&shape.Rec{A: int64(i), K: fmt.Sprintf("c%d", i)})
		db.InsertOrUpdate(&shape.Other{A: i})
	}
	// the storage goes away: the root is now a regular file, every write fails
	os.RemoveAll(root)
	os.WriteFile(root, []byte("x"), 0600)
	return watchdog(15*time.Second, func() {
		db.Close()
		db.Count(&shape.Rec{})
	})
}

func runLockProbes(w *bufio.Writer, seed int64, n int) {
	sod.LowercaseNames = false
	for i := 0; i < n; i++ {
		if !watchdog(40*time.Second, func() { dropProbe(seed*131 + int64(i)) }) {
			fmt.Fprintf(w, "! C09 probe %d: Drop while three writers and the asynchronous-write routine are at work: calls still blocked after 40s\n", i)
			break
		}
		if !dropBatchProbe(i) {
			fmt.Fprintf(w, "! C09 probe %d: InsertOrUpdateMany of a large batch (asynchronous collection, threshold 10), then Drop, then Count: calls still blocked after 25s\n", i)
			break
		}
		if !closeFailProbe(i) {
			fmt.Fprintf(w, "! C09 probe %d: Close of a handle with two asynchronous collections holding pending writes while every write fails (root replaced by a file): still blocked after 15s\n", i)
			break
		}
		fmt.Fprintf(w, "probe %d ok\n", i)
		w.Flush()
	}
	fmt.Fprintf(w, "lockprobes done\n")
}
