package main

// Time keys (C02 / C13): what newIndexedField makes of a time.Time (the int64 stored in the field index, read
// from the schema), what AssignIndex turns that key back into, and which objects the six comparisons select
// between any two of the stored instants. Run against Model/Norm.v by the model driver (-timekey), and
// against the TIME ORDERING itself here: for every time.Time, not only for the years UnixNano is defined for.

import (
	"bufio"
	"fmt"
	"math"
	"math/rand"
	"os"
	"time"

	"github.com/0xrawsec/sod"
)

type Stamp struct {
	sod.Item
	T time.Time `sod:"index"`
	N int
}

const giga = 1000000000

// inNanoRange: the instants UnixNano is defined for
func inNanoRange(t time.Time) bool {
	return !t.Before(time.Unix(0, math.MinInt64)) && !t.After(time.Unix(0, math.MaxInt64))
}

func rangeTag(ts ...time.Time) string {
	for _, t := range ts {
		if !inNanoRange(t) {
			return "[instant outside the range of UnixNano]"
		}
	}
	return "[instants in the range of UnixNano]"
}

// genTime: instants inside the range of UnixNano, at its two ends, far outside (any year 1..9999), the zero time
func genTime(r *rand.Rand) time.Time {
	lo, hi := int64(math.MinInt64/giga), int64(math.MaxInt64/giga)
	var sec int64
	switch r.Intn(8) {
	case 0:
		return time.Time{}.In(timeLocs[r.Intn(len(timeLocs))])
	case 1:
		sec = lo + int64(r.Intn(5)) - 2
	case 2:
		sec = hi + int64(r.Intn(5)) - 2
	case 3: // any year
		sec = -62135596800 + r.Int63n(253402300799+62135596800)
	case 4:
		sec = int64(r.Intn(5)) - 2
	default: // in range
		sec = lo + 3 + r.Int63n(hi-lo-6)
	}
	nsec := int64(r.Intn(giga))
	if r.Intn(4) == 0 {
		nsec = []int64{0, 1, giga - 1, 854775807, 854775808, 145224192, 145224191}[r.Intn(7)]
	}
	return time.Unix(sec, nsec).In(timeLocs[r.Intn(len(timeLocs))])
}

func runTimeKey(w *bufio.Writer, seed int64, rounds int) {
	r := rand.New(rand.NewSource(seed))
	sod.LowercaseNames = false
	for round := 0; round < rounds; round++ {
		root, _ := os.MkdirTemp("", "hzt")
		db := sod.Open(root)
		if err := db.Create(&Stamp{}, sod.DefaultSchema); err != nil {
			fmt.Fprintf(w, "! C02 time keys: create: %v\n", err)
			os.RemoveAll(root)
			continue
		}
		k := 4 + r.Intn(8)
		objs := make([]*Stamp, k)
		byUUID := map[string]*Stamp{}
		for i := range objs {
			objs[i] = &Stamp{T: genTime(r), N: i}
			if i > 0 && r.Intn(5) == 0 {
				objs[i].T = objs[r.Intn(i)].T.In(timeLocs[r.Intn(len(timeLocs))]) // the same instant again
			}
			if err := db.InsertOrUpdate(objs[i]); err != nil {
				fmt.Fprintf(w, "! C02 time keys: insert of %s: %v\n", objs[i].T.Format(time.RFC3339Nano), err)
			}
			byUUID[objs[i].UUID()] = objs[i]
		}
		// the keys, as stored in the index, and what AssignIndex makes of them (same order)
		var back []time.Time
		if err := db.AssignIndex(&Stamp{}, "T", &back); err != nil {
			fmt.Fprintf(w, "! C13 time keys: AssignIndex: %v\n", err)
		}
		s, err := db.Schema(&Stamp{})
		if err == nil && s != nil && s.ObjectIndex != nil && s.ObjectIndex.Fields["T"] != nil {
			ix := s.ObjectIndex.Fields["T"].Index
			for i, f := range ix {
				o := byUUID[s.ObjectIndex.ObjectIds[f.ObjectId]]
				key, _ := f.Value.(int64)
				if o == nil || i >= len(back) {
					continue
				}
				b := back[i]
				fmt.Fprintf(w, "tk %d %d %d %d %d\n", o.T.Unix(), o.T.Nanosecond(), key, b.Unix(), b.Nanosecond())
				// AssignIndex returns the field value of every stored object (the instant: a time.Time read back
				// from JSON is the same instant too)
				if !b.Equal(o.T) {
					fmt.Fprintf(w, "! C13 time ordering %s AssignIndex returns %s for the object whose field holds %s\n",
						rangeTag(o.T), b.UTC().Format(time.RFC3339Nano), o.T.UTC().Format(time.RFC3339Nano))
				}
			}
		}
		// the six comparisons, every stored instant as the probe: all and only the objects whose field
		// satisfies the comparison under the time ordering
		for _, p := range objs {
			for _, op := range []string{"=", "!=", "<", "<=", ">", ">="} {
				got, err := db.Search(&Stamp{}, "T", op, p.T).Collect()
				if err != nil {
					fmt.Fprintf(w, "! C02 time keys: Search(T %s %s): %v\n", op, p.T.UTC().Format(time.RFC3339Nano), err)
					continue
				}
				sel := map[int]bool{}
				for _, o := range got {
					sel[o.(*Stamp).N] = true
				}
				gs, ws := "", ""
				for _, o := range objs {
					want := false
					switch op {
					case "=":
						want = o.T.Equal(p.T)
					case "!=":
						want = !o.T.Equal(p.T)
					case "<":
						want = o.T.Before(p.T)
					case "<=":
						want = !o.T.After(p.T)
					case ">":
						want = o.T.After(p.T)
					case ">=":
						want = !o.T.Before(p.T)
					}
					gs += map[bool]string{true: "1", false: "0"}[sel[o.N]]
					ws += map[bool]string{true: "1", false: "0"}[want]
					if want != sel[o.N] {
						// which of the two instants is outside the range decides how the finding is named
						fmt.Fprintf(w, "! C02 time ordering %s Search(T %s %s) %s the object whose field holds %s\n",
							rangeTag(o.T, p.T), op, p.T.UTC().Format(time.RFC3339Nano), map[bool]string{true: "misses", false: "returns"}[want], o.T.UTC().Format(time.RFC3339Nano))
					}
				}
				fmt.Fprintf(w, "ts %d %d %s %s", p.T.Unix(), p.T.Nanosecond(), op, gs)
				for _, o := range objs {
					fmt.Fprintf(w, " %d:%d", o.T.Unix(), o.T.Nanosecond())
				}
				fmt.Fprintf(w, "\n")
				_ = ws
			}
		}
		db.Close()
		os.RemoveAll(root)
	}
	fmt.Fprintf(w, "timekey done\n")
}
