package main

// Flat view of shape.Rec shared with the Coq model: 18 scalar keys + rest token.
// Key tokens:  i<decimal>  (int64 kind: ints and times as exact integers)
//              u<decimal>  (uint64 kind)
//              f<decimal>  (float: order-preserving code of the IEEE-754 bits; -0 and +0 -> 0)
//              fnan        (NaN; never a probe)
//              s<hex>      (string bytes)

import (
	"encoding/hex"
	"encoding/json"
	"fmt"
	"math"
	"strconv"
	"strings"

	"verif/harness/shape"
)

const NF = shape.NF

type Flat struct {
	U int // uuid number, 0 = none
	K [NF]string
	R int
}

func fcode(f float64) string {
	if math.IsNaN(f) {
		return "fnan"
	}
	b := math.Float64bits(f)
	mag := int64(b & 0x7fffffffffffffff)
	if b>>63 == 1 {
		mag = -mag
	}
	return "f" + strconv.FormatInt(mag, 10)
}

func fdecode(tok string) float64 {
	if tok == "fnan" {
		return math.NaN()
	}
	n, err := strconv.ParseInt(tok[1:], 10, 64)
	if err != nil {
		panic("bad float token " + tok)
	}
	if n < 0 {
		return math.Float64frombits(uint64(-n) | 1<<63)
	}
	return math.Float64frombits(uint64(n))
}

func stok(s string) string { return "s" + hex.EncodeToString([]byte(s)) }
func sdecode(tok string) string {
	b, err := hex.DecodeString(tok[1:])
	if err != nil {
		panic("bad string token " + tok)
	}
	return string(b)
}
func itok(i int64) string  { return "i" + strconv.FormatInt(i, 10) }
func utok(u uint64) string { return "u" + strconv.FormatUint(u, 10) }
func idec(tok string) int64 {
	n, err := strconv.ParseInt(tok[1:], 10, 64)
	if err != nil {
		panic("bad int token " + tok)
	}
	return n
}
func udec(tok string) uint64 {
	n, err := strconv.ParseUint(tok[1:], 10, 64)
	if err != nil {
		panic("bad uint token " + tok)
	}
	return n
}

type payload struct {
	Sl []string
	M  map[string]int
	P  *int
}

func ip(i int) *int { return &i }

var payloads = []payload{
	{nil, nil, nil},
	{[]string{}, map[string]int{}, ip(0)},
	{[]string{"a", "b"}, map[string]int{"x": 1}, ip(7)},
	{[]string{"c"}, nil, nil},
	{nil, map[string]int{"y": 2, "z": 3}, ip(-1)},
}

func payloadJSON(p payload) string { b, _ := json.Marshal(p); return string(b) }

var payloadIdx = func() map[string]int {
	m := map[string]int{}
	for i, p := range payloads {
		m[payloadJSON(p)] = i
	}
	return m
}()

func clonePayload(i int) payload {
	var p payload
	json.Unmarshal([]byte(payloadJSON(payloads[i])), &p)
	// json turns "null" into nil and [] into empty: same shapes as the table
	return p
}

// recToFlat: nil pointers on a path read as zero values (what sod's field resolution does)
func recToFlat(r *shape.Rec, u int) Flat {
	var f Flat
	f.U = u
	f.K[shape.FA] = itok(r.A)
	f.K[shape.FB] = itok(int64(r.B))
	f.K[shape.FU] = utok(r.U)
	f.K[shape.FV] = utok(uint64(r.V))
	f.K[shape.FF] = fcode(r.F)
	f.K[shape.FG] = fcode(float64(r.G))
	f.K[shape.FS] = stok(r.S)
	f.K[shape.FK] = stok(r.K)
	f.K[shape.FT] = itok(r.T.UTC().UnixNano())
	nb := 0
	n := r.N
	if n == nil {
		nb = 3
		n = &shape.Nested{}
	}
	d := n.D
	if d == nil {
		nb |= 2
		d = &shape.Deep{}
	}
	f.K[shape.FNX] = itok(int64(n.X))
	f.K[shape.FNY] = stok(n.Y)
	f.K[shape.FNDZ] = fcode(d.Z)
	f.K[shape.FNDW] = stok(d.W)
	f.K[shape.FNVP] = itok(int64(r.NV.P))
	f.K[shape.FNVQ] = stok(r.NV.Q)
	f.K[shape.FE] = utok(uint64(r.E))
	f.K[shape.FTM] = itok(int64(r.TM))
	f.K[shape.FVM] = itok(int64(r.VM))
	pj := payloadJSON(payload{r.Sl, r.M, r.P})
	pv, ok := payloadIdx[pj]
	if !ok {
		pv = 1000 + len(pj) // unknown payload: can never equal a model value
	}
	f.R = pv*4 + nb
	return f
}

func flatToRec(f Flat) *shape.Rec {
	r := &shape.Rec{}
	r.A = idec(f.K[shape.FA])
	r.B = int8(idec(f.K[shape.FB]))
	r.U = udec(f.K[shape.FU])
	r.V = uint32(udec(f.K[shape.FV]))
	r.F = fdecode(f.K[shape.FF])
	r.G = float32(fdecode(f.K[shape.FG]))
	r.S = sdecode(f.K[shape.FS])
	r.K = sdecode(f.K[shape.FK])
	r.T = timeOf(idec(f.K[shape.FT]))
	nb := f.R % 4
	if nb&1 == 0 {
		r.N = &shape.Nested{X: int32(idec(f.K[shape.FNX])), Y: sdecode(f.K[shape.FNY])}
		if nb&2 == 0 {
			r.N.D = &shape.Deep{Z: fdecode(f.K[shape.FNDZ]), W: sdecode(f.K[shape.FNDW])}
		}
	}
	r.NV.P = int(idec(f.K[shape.FNVP]))
	r.NV.Q = sdecode(f.K[shape.FNVQ])
	r.E = uint16(udec(f.K[shape.FE]))
	r.TM = int(idec(f.K[shape.FTM]))
	r.VM = int(idec(f.K[shape.FVM]))
	p := clonePayload((f.R / 4) % len(payloads))
	r.Sl, r.M, r.P = p.Sl, p.M, p.P
	return r
}

// token: R<u>|k0,...,k17|<rest>
func (f Flat) String() string {
	return fmt.Sprintf("R%d|%s|%d", f.U, strings.Join(f.K[:], ","), f.R)
}

func parseFlat(tok string) Flat {
	var f Flat
	parts := strings.Split(tok, "|")
	if len(parts) != 3 || !strings.HasPrefix(parts[0], "R") {
		panic("bad record token " + tok)
	}
	f.U, _ = strconv.Atoi(parts[0][1:])
	ks := strings.Split(parts[1], ",")
	if len(ks) != NF {
		panic("bad record arity " + tok)
	}
	copy(f.K[:], ks)
	f.R, _ = strconv.Atoi(parts[2])
	return f
}

// keyValue builds the Go probe value for a key token; native=true uses the field's own Go type
// where the value fits (exercises sod's normalisation switch), otherwise the 64-bit kind.
func keyValue(tok string, field int, native bool) interface{} {
	switch tok[0] {
	case 's':
		return sdecode(tok)
	case 'f':
		v := fdecode(tok)
		if native && field == shape.FG && float64(float32(v)) == v {
			return float32(v)
		}
		return v
	case 'u':
		u := udec(tok)
		if native {
			switch field {
			case shape.FV:
				if u <= math.MaxUint32 {
					return uint32(u)
				}
			case shape.FE:
				if u <= math.MaxUint16 {
					return uint16(u)
				}
			}
		}
		return u
	case 'i':
		v := idec(tok)
		if native {
			switch field {
			case shape.FB:
				if v >= math.MinInt8 && v <= math.MaxInt8 {
					return int8(v)
				}
			case shape.FT:
				return timeOf(v)
			case shape.FNX:
				if v >= math.MinInt32 && v <= math.MaxInt32 {
					return int32(v)
				}
			case shape.FNVP, shape.FTM, shape.FVM:
				return int(v)
			}
		}
		return v
	}
	panic("bad key token " + tok)
}
