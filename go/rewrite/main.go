// rewrite: copies the *.go files of a sod source tree from <src> to <dst>, redirecting the
// package's file-system, sleep and RWMutex selectors to the vshim package
// (github.com/0xrawsec/sod/vshim). Selectors of os/ioutil that are NOT redirected are listed on
// stdout as "unintercepted" so that the evidence can show them. Test files are copied as is
// unless RW_TESTS is set.
package main

import (
	"fmt"
	"go/ast"
	"go/parser"
	"go/printer"
	"go/token"
	"os"
	"path/filepath"
	"strings"
)

// symbols redirected to the shim, per package
var redirect = map[string]map[string]bool{
	"os":     {"Remove": true, "RemoveAll": true, "MkdirAll": true, "Stat": true, "Open": true, "OpenFile": true, "ReadDir": true, "File": true, "Rename": true, "WriteFile": true, "ReadFile": true, "Create": true, "CreateTemp": true, "Mkdir": true},
	"ioutil": {"WriteFile": true, "ReadFile": true},
	"time":   {"Sleep": true},
	"sync":   {"RWMutex": true},
}

func main() {
	src, dst := os.Args[1], os.Args[2]
	entries, _ := os.ReadDir(src)
	for _, e := range entries {
		if e.IsDir() || !strings.HasSuffix(e.Name(), ".go") {
			continue
		}
		fset := token.NewFileSet()
		f, err := parser.ParseFile(fset, filepath.Join(src, e.Name()), nil, parser.ParseComments)
		if err != nil {
			panic(err)
		}
		if strings.HasSuffix(e.Name(), "_test.go") && os.Getenv("RW_TESTS") == "" {
			data, _ := os.ReadFile(filepath.Join(src, e.Name()))
			os.WriteFile(filepath.Join(dst, e.Name()), data, 0644)
			continue
		}
		// local names of imported packages
		local := map[string]string{}
		for _, im := range f.Imports {
			p := strings.Trim(im.Path.Value, `"`)
			name := filepath.Base(p)
			if im.Name != nil {
				name = im.Name.Name
			}
			switch p {
			case "os", "io/ioutil", "time", "sync":
				local[name] = filepath.Base(p)
			}
		}
		used := false
		count := map[string]int{}
		unint := map[string]int{}
		ast.Inspect(f, func(n ast.Node) bool {
			se, ok := n.(*ast.SelectorExpr)
			if !ok {
				return true
			}
			id, ok := se.X.(*ast.Ident)
			if !ok || id.Obj != nil { // id.Obj != nil => local variable shadowing
				return true
			}
			if pkg, ok := local[id.Name]; ok && redirect[pkg][se.Sel.Name] {
				id.Name = "vshim"
				if pkg == "ioutil" {
					se.Sel.Name = "Ioutil" + se.Sel.Name
				}
				used = true
				count[pkg+"."+se.Sel.Name]++
			} else if ok {
				unint[pkg+"."+se.Sel.Name]++
			}
			return true
		})
		if used {
			// add import
			ast.Inspect(f, func(n ast.Node) bool { return true })
			f.Imports = append(f.Imports, &ast.ImportSpec{Path: &ast.BasicLit{Kind: token.STRING, Value: `"github.com/0xrawsec/sod/vshim"`}})
			for _, d := range f.Decls {
				if gd, ok := d.(*ast.GenDecl); ok && gd.Tok == token.IMPORT {
					gd.Specs = append(gd.Specs, &ast.ImportSpec{Path: &ast.BasicLit{Kind: token.STRING, Value: `"github.com/0xrawsec/sod/vshim"`}})
					break
				}
			}
		}
		// drop imports no longer referenced
		refs := map[string]bool{}
		ast.Inspect(f, func(n ast.Node) bool {
			if se, ok := n.(*ast.SelectorExpr); ok {
				if id, ok := se.X.(*ast.Ident); ok && id.Obj == nil {
					refs[id.Name] = true
				}
			}
			return true
		})
		for _, d := range f.Decls {
			if gd, ok := d.(*ast.GenDecl); ok && gd.Tok == token.IMPORT {
				var keep []ast.Spec
				for _, sp := range gd.Specs {
					im := sp.(*ast.ImportSpec)
					p := strings.Trim(im.Path.Value, `"`)
					name := filepath.Base(p)
					if im.Name != nil {
						name = im.Name.Name
					}
					if _, tracked := local[name]; tracked && !refs[name] {
						continue
					}
					keep = append(keep, sp)
				}
				gd.Specs = keep
			}
		}
		out, _ := os.Create(filepath.Join(dst, e.Name()))
		printer.Fprint(out, fset, f)
		out.Close()
		fmt.Println(e.Name(), "redirected", count, "unintercepted", unint)
	}
}
