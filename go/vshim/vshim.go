// Package vshim is dropped into a SCRATCH COPY of the sod working tree at check time
// (as github.com/0xrawsec/sod/vshim); the copy's os.*/ioutil.*/time.Sleep/sync.RWMutex
// selectors are redirected here by /verif/go/rewrite. Pass-through by default.
//
// Modes (all switchable at run time by the external harness):
//   - record: log of file-system operations with payloads
//   - fault:  fail the k-th file-system operation (no effect, EIO)
//   - virtual clock: Sleep parks the goroutine until the harness issues a Tick
//   - lock monitor: per-goroutine held sets of RWMutex values (re-entrancy reports)
package vshim

import (
	"bytes"
	"errors"
	"fmt"
	"io/fs"
	"os"
	"runtime"
	"strconv"
	"sync"
	"sync/atomic"
	"syscall"
	"time"
)

// ---------------------------------------------------------------- FS log / faults

type Event struct {
	Kind string // mkdirall trunc write close remove removeall stat open readdir read
	Path string
	Data []byte
	Mut  bool // mutating
}

var (
	mu        sync.Mutex
	recording bool
	events    []Event
	opCount   int   // counts every intercepted FS operation since ArmFault
	failAt    = -1  // index (0-based, in opCount numbering) of the operation to fail; -1 none
	failMut   bool  // count only mutating operations
	crashMode bool  // the armed operation does not fail: the "process" dies there (panic Crash)
	dead      bool  // after the crash, until disarmed
	failed    bool  // the armed fault fired
	ErrFault  = fmt.Errorf("vshim injected fault: %w", syscall.EIO)
	Unhandled int64 // reserved
)

func StartRecording() { mu.Lock(); recording = true; events = nil; mu.Unlock() }
func StopRecording() []Event {
	mu.Lock()
	defer mu.Unlock()
	recording = false
	ev := events
	events = nil
	return ev
}

// ArmFault makes the k-th (0-based) subsequent FS operation fail (only mutating ones are
// counted when mutOnly). DisarmFault returns whether it fired and how many ops were seen.
func ArmFault(k int, mutOnly bool) {
	mu.Lock()
	opCount, failAt, failMut, failed = 0, k, mutOnly, false
	mu.Unlock()
}
var lastFault string

type crashT struct{}

// Crash is the panic value of a simulated process death
var Crash = crashT{}

// IsDead: a simulated crash fired and has not been disarmed yet
func IsDead() bool { mu.Lock(); defer mu.Unlock(); return dead }

// ArmCrash: the k-th subsequent mutating FS operation does not happen and nothing after it
// does either: the calling goroutine panics with Crash (deferred unlocks run, the handle must
// be abandoned)
func ArmCrash(k int) {
	mu.Lock()
	opCount, failAt, failMut, failed, crashMode = 0, k, true, false, true
	mu.Unlock()
}

// LastFault: "<kind>:<path>" of the operation the last injected fault hit
func LastFault() string { mu.Lock(); defer mu.Unlock(); return lastFault }

func DisarmFault() (fired bool, seen int) {
	mu.Lock()
	defer mu.Unlock()
	fired, seen = failed, opCount
	failAt = -1
	crashMode = false
	dead = false
	return
}

// op registers one FS operation; returns true when it must fail
func op(kind, path string, data []byte, mut bool) bool {
	mu.Lock()
	defer mu.Unlock()
	if dead {
		// the simulated process is dead: code still running (deferred calls during the
		// unwinding of the Crash panic) must have no effect on the file system
		if mut {
			opCount++
		}
		return true
	}
	fail := false
	if failAt >= 0 && (mut || !failMut) {
		if opCount == failAt {
			fail = true
			failed = true
			lastFault = kind + ":" + path
			if crashMode {
				opCount++
				dead = true
				panic(Crash)
			}
		}
		opCount++
	}
	if recording && !fail {
		var d []byte
		if data != nil {
			d = append([]byte{}, data...)
		}
		events = append(events, Event{kind, path, d, mut})
	}
	return fail
}

type File struct {
	f     *os.File
	path  string
	w     bool
	wrote bool
}

func (f *File) Read(p []byte) (int, error) { return f.f.Read(p) }

// Write: the writes of one open file are ONE file-system operation for the log and for
// fault injection (gzip issues several); later chunks are appended to the recorded payload
func (f *File) Write(p []byte) (int, error) {
	if !f.wrote {
		f.wrote = true
		if op("write", f.path, p, true) {
			return 0, ErrFault
		}
	} else {
		mu.Lock()
		if dead {
			mu.Unlock()
			return 0, ErrFault
		}
		if recording {
			for i := len(events) - 1; i >= 0; i-- {
				if events[i].Kind == "write" && events[i].Path == f.path {
					events[i].Data = append(events[i].Data, p...)
					break
				}
			}
		}
		mu.Unlock()
	}
	return f.f.Write(p)
}
func (f *File) Close() error {
	if f.w {
		op("close", f.path, nil, false)
	}
	return f.f.Close()
}
func (f *File) Name() string { return f.f.Name() }

func Remove(p string) error {
	if op("remove", p, nil, true) {
		return ErrFault
	}
	return os.Remove(p)
}
func RemoveAll(p string) error {
	if op("removeall", p, nil, true) {
		return ErrFault
	}
	return os.RemoveAll(p)
}
func MkdirAll(p string, m fs.FileMode) error {
	// mkdir of an existing directory is not a mutation: record it as such only when it creates
	if st, err := os.Stat(p); err == nil && st.IsDir() {
		if op("mkdirall-noop", p, nil, false) {
			return ErrFault
		}
		return nil
	}
	if op("mkdirall", p, nil, true) {
		return ErrFault
	}
	return os.MkdirAll(p, m)
}
func Mkdir(p string, m fs.FileMode) error {
	if op("mkdir", p, nil, true) {
		return ErrFault
	}
	return os.Mkdir(p, m)
}
func Stat(p string) (os.FileInfo, error) {
	if op("stat", p, nil, false) {
		return nil, ErrFault
	}
	return os.Stat(p)
}
func Open(p string) (*File, error) {
	if op("open", p, nil, false) {
		return nil, ErrFault
	}
	f, err := os.Open(p)
	if err != nil {
		return nil, err
	}
	return &File{f: f, path: p}, nil
}
func OpenFile(p string, flag int, m fs.FileMode) (*File, error) {
	mut := flag&(os.O_TRUNC|os.O_CREATE|os.O_WRONLY|os.O_RDWR|os.O_APPEND) != 0
	kind := "open"
	if flag&os.O_TRUNC != 0 {
		kind = "trunc"
	} else if flag&os.O_CREATE != 0 {
		kind = "create"
	}
	if !mut {
		kind = "open"
	}
	if op(kind, p, nil, mut && kind != "open") {
		return nil, ErrFault
	}
	f, err := os.OpenFile(p, flag, m)
	if err != nil {
		return nil, err
	}
	return &File{f: f, path: p, w: mut}, nil
}
func Create(p string) (*File, error) {
	return OpenFile(p, os.O_RDWR|os.O_CREATE|os.O_TRUNC, 0666)
}
func CreateTemp(dir, pattern string) (*File, error) {
	f, err := os.CreateTemp(dir, pattern)
	if err != nil {
		return nil, err
	}
	if op("trunc", f.Name(), nil, true) {
		f.Close()
		os.Remove(f.Name())
		return nil, ErrFault
	}
	return &File{f: f, path: f.Name(), w: true}, nil
}
func Rename(a, b string) error {
	if op("rename", a+"\x00"+b, nil, true) {
		return ErrFault
	}
	return os.Rename(a, b)
}
func ReadDir(p string) ([]os.DirEntry, error) {
	if op("readdir", p, nil, false) {
		return nil, ErrFault
	}
	return os.ReadDir(p)
}
func ReadFile(p string) ([]byte, error) {
	if op("open", p, nil, false) {
		return nil, ErrFault
	}
	return os.ReadFile(p)
}
func WriteFile(p string, d []byte, m fs.FileMode) error {
	// as the Go implementation: open with O_TRUNC|O_CREATE, write, close
	if op("trunc", p, nil, true) {
		return ErrFault
	}
	f, err := os.OpenFile(p, os.O_WRONLY|os.O_CREATE|os.O_TRUNC, m)
	if err != nil {
		return err
	}
	if op("write", p, d, true) {
		f.Close()
		return ErrFault
	}
	_, err = f.Write(d)
	op("close", p, nil, false)
	if e := f.Close(); e != nil && err == nil {
		err = e
	}
	return err
}
func IoutilWriteFile(p string, d []byte, m fs.FileMode) error { return WriteFile(p, d, m) }
func IoutilReadFile(p string) ([]byte, error)                { return ReadFile(p) }

func IsFault(err error) bool { return err != nil && errors.Is(err, syscall.EIO) }

// ---------------------------------------------------------------- virtual clock

var (
	Virtual int32
	vmu     sync.Mutex
	parked  []chan struct{}
	sleeps  int64
)

func Sleep(d time.Duration) {
	if atomic.LoadInt32(&Virtual) == 0 {
		time.Sleep(d)
		return
	}
	ch := make(chan struct{})
	vmu.Lock()
	parked = append(parked, ch)
	vmu.Unlock()
	atomic.AddInt64(&sleeps, 1)
	<-ch
}

func SetVirtual(on bool) {
	if on {
		atomic.StoreInt32(&Virtual, 1)
	} else {
		atomic.StoreInt32(&Virtual, 0)
		ReleaseAll()
	}
}

func Parked() int { vmu.Lock(); defer vmu.Unlock(); return len(parked) }

// WaitParked blocks until at least n sleepers are parked (or timeout)
func WaitParked(n int, to time.Duration) bool {
	deadline := time.Now().Add(to)
	for {
		if Parked() >= n {
			return true
		}
		if time.Now().After(deadline) {
			return false
		}
		time.Sleep(100 * time.Microsecond)
	}
}

// ReleaseAll wakes every parked sleeper without waiting
func ReleaseAll() int {
	vmu.Lock()
	cur := parked
	parked = nil
	vmu.Unlock()
	for _, ch := range cur {
		close(ch)
	}
	return len(cur)
}

// scan: goroutines whose stack mentions pattern (alive)
func scan(pattern string) (alive int) {
	buf := make([]byte, 1<<20)
	n := runtime.Stack(buf, true)
	for _, g := range bytes.Split(buf[:n], []byte("\n\n")) {
		if bytes.Contains(g, []byte(pattern)) {
			alive++
		}
	}
	return
}

// CountGoroutines: live goroutines with a frame matching pattern
func CountGoroutines(pattern string) int { return scan(pattern) }

// Quiesce waits until every live goroutine matching pattern (the package's background
// goroutines; the caller must not be inside the package) is parked in the virtual clock.
func Quiesce(pattern string, to time.Duration) bool {
	deadline := time.Now().Add(to)
	for {
		if scan(pattern) == Parked() {
			// re-check once: a goroutine may be between wake-up and its next registration
			if scan(pattern) == Parked() {
				return true
			}
		}
		if time.Now().After(deadline) {
			return false
		}
		time.Sleep(50 * time.Microsecond)
	}
}

// Tick releases every parked sleeper once and waits for quiescence
func Tick(pattern string, to time.Duration) (released int, ok bool) {
	released = ReleaseAll()
	ok = Quiesce(pattern, to)
	return
}

// ---------------------------------------------------------------- lock monitor

var (
	Monitor    int32
	lmu        sync.Mutex
	heldBy     = map[uint64]map[*RWMutex]string{} // goroutine id -> mutex -> mode
	LockReport []string
)

func gid() uint64 {
	b := make([]byte, 64)
	b = b[:runtime.Stack(b, false)]
	b = bytes.TrimPrefix(b, []byte("goroutine "))
	b = b[:bytes.IndexByte(b, ' ')]
	n, _ := strconv.ParseUint(string(b), 10, 64)
	return n
}

type RWMutex struct {
	m sync.RWMutex
}

func caller() string {
	pcs := make([]uintptr, 8)
	n := runtime.Callers(4, pcs)
	fr := runtime.CallersFrames(pcs[:n])
	s := ""
	for {
		f, more := fr.Next()
		if s != "" {
			s += "<-"
		}
		s += f.Function
		if !more {
			break
		}
	}
	return s
}

func (l *RWMutex) note(mode string, acquire bool) {
	if atomic.LoadInt32(&Monitor) == 0 {
		return
	}
	g := gid()
	lmu.Lock()
	defer lmu.Unlock()
	h := heldBy[g]
	if h == nil {
		h = map[*RWMutex]string{}
		heldBy[g] = h
	}
	if acquire {
		if prev, ok := h[l]; ok {
			LockReport = append(LockReport, fmt.Sprintf("reentrant %s while holding %s: %s", mode, prev, caller()))
		}
		h[l] = mode
	} else {
		delete(h, l)
	}
}

func (l *RWMutex) Lock()    { l.note("W", true); l.m.Lock() }
func (l *RWMutex) Unlock()  { l.m.Unlock(); l.note("W", false) }
func (l *RWMutex) RLock()   { l.note("R", true); l.m.RLock() }
func (l *RWMutex) RUnlock() { l.m.RUnlock(); l.note("R", false) }

func SetMonitor(on bool) {
	if on {
		atomic.StoreInt32(&Monitor, 1)
	} else {
		atomic.StoreInt32(&Monitor, 0)
	}
}
func TakeLockReport() []string {
	lmu.Lock()
	defer lmu.Unlock()
	r := LockReport
	LockReport = nil
	return r
}
