//go:build verif

// Dropped into the SCRATCH COPY of the working tree by /verif/build_harness.sh (never into
// /repo): exposes unexported pure helpers to the external harness, guarded by the build tag
// "verif". Add-only.
package sod

import (
	"os"
	"path/filepath"
	"reflect"
	"strings"
)

// VerifCamelToSnake exposes camelToSnake (directory naming with LowercaseNames)
func VerifCamelToSnake(s string) string { return camelToSnake(s) }

// VerifCloneObject exposes the cloning used by the cache and the pending store
func VerifCloneObject(o Object) Object { return CloneObject(o) }

// VerifFieldDescriptorsOf exposes recFieldDescriptors on an arbitrary value (struct types built at
// run time by the harness cannot implement Object, so FieldDescriptors cannot be given them)
func VerifFieldDescriptorsOf(v reflect.Value) []FieldDescriptor {
	s := make([]FieldDescriptor, 0)
	recFieldDescriptors(v, "", &s)
	return s
}

// VerifTransformAt exposes the walk Constraints.TransformField performs along a field path
func VerifTransformAt(c Constraints, fieldPath string, v reflect.Value) {
	if !c.Transformer() {
		return
	}
	c.recursiveTransform(strings.Split(fieldPath, "."), v)
}

// VerifUuidExt exposes uuidExt, and whether uuidsFromDir lists a directory entry of that name: the entry is
// really created in a scratch directory and listed by uuidsFromDir itself (a name that cannot be a directory
// entry -- empty, ".", "..", holding a slash -- is not listed)
func VerifUuidExt(name string) (uuid, ext string, listed bool) {
	uuid, ext = uuidExt(name)
	if name == "" || name == "." || name == ".." || strings.ContainsAny(name, "/\x00") {
		return uuid, ext, false
	}
	dir, err := os.MkdirTemp("", "vux")
	if err != nil {
		panic(err)
	}
	defer os.RemoveAll(dir)
	if err := os.WriteFile(filepath.Join(dir, name), []byte("{}"), 0600); err != nil {
		panic(err)
	}
	m, err := uuidsFromDir(dir)
	if err != nil {
		panic(err)
	}
	return uuid, ext, len(m) > 0
}

// VerifValueFieldByName exposes the walk a search makes along a field path (object_index.go)
func VerifValueFieldByName(v reflect.Value, fields []string) (reflect.Value, bool) {
	return valueFieldByName(v, fields)
}

// VerifFieldPath exposes the splitting of a field path
func VerifFieldPath(path string) []string { return fieldPath(path) }
