//go:build verif

// Dropped into the SCRATCH COPY of the working tree by /verif/build_harness.sh (never into
// /repo): exposes unexported pure helpers to the external harness, guarded by the build tag
// "verif". Add-only.
package sod

import (
	"reflect"
	"strings"
)

// VerifCamelToSnake exposes camelToSnake (directory naming with LowercaseNames)
func VerifCamelToSnake(s string) string { return camelToSnake(s) }

// VerifCloneObject exposes the cloning used by the cache and the pending store
func VerifCloneObject(o Object) Object { return CloneObject(o) }

// VerifFieldDescriptorsOf exposes recFieldDescriptors on an arbitrary value (struct types built at
// run time by the harness cannot implement Object, so FieldDescriptors cannot be given them)
func VerifFieldDescriptorsOf(v reflect.Value) []FieldDescriptor {
	s := make([]FieldDescriptor, 0)
	recFieldDescriptors(v, "", &s)
	return s
}

// VerifTransformAt exposes the walk Constraints.TransformField performs along a field path
func VerifTransformAt(c Constraints, fieldPath string, v reflect.Value) {
	if !c.Transformer() {
		return
	}
	c.recursiveTransform(strings.Split(fieldPath, "."), v)
}

// VerifUuidExt exposes uuidExt and the uuid test of uuidsFromDir on a directory entry name
func VerifUuidExt(name string) (uuid, ext string, listed bool) {
	uuid, ext = uuidExt(name)
	return uuid, ext, uuidRegexp.MatchString(uuid)
}

// VerifValueFieldByName exposes the walk a search makes along a field path (object_index.go)
func VerifValueFieldByName(v reflect.Value, fields []string) (reflect.Value, bool) {
	return valueFieldByName(v, fields)
}

// VerifFieldPath exposes the splitting of a field path
func VerifFieldPath(path string) []string { return fieldPath(path) }
