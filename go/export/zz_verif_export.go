//go:build verif

// Dropped into the SCRATCH COPY of the working tree by /verif/build_harness.sh (never into
// /repo): exposes unexported pure helpers to the external harness, guarded by the build tag
// "verif". Add-only.
package sod

// VerifCamelToSnake exposes camelToSnake (directory naming with LowercaseNames)
func VerifCamelToSnake(s string) string { return camelToSnake(s) }

// VerifCloneObject exposes the cloning used by the cache and the pending store
func VerifCloneObject(o Object) Object { return CloneObject(o) }
