#!/bin/sh
# Lock-discipline check (C09 / C08 static half) of a sod source tree.
#   usage: run.sh <src-tree> <workdir> [<coq dir, default /verif/coq>]
# 1. builds the extractor and runs it on <src-tree> (outputs in <workdir>:
#    Skeleton.v, skeleton.txt, report.json);
# 2. installs <workdir>/Skeleton.v as <coq dir>/Gen/Skeleton.v, (re)compiles
#    the Lock library if needed, Gen/Skeleton.v and Lock/SodCheck.v;
# 3. prints the verdict lines ("name", value) computed by Coq, and the
#    violation signatures of report.json when a verdict is false.
# Exit status: non-zero ONLY when the extractor fails closed (or a tool is
# broken: build/compile error).  A false verdict is reported, not an error.
set -u
SRC=${1:?usage: run.sh <src-tree> <workdir> [coq dir]}
WORK=${2:?usage: run.sh <src-tree> <workdir> [coq dir]}
COQ=${3:-/verif/coq}
HERE=$(cd "$(dirname "$0")" && pwd)
export GOFLAGS=-mod=mod GOPROXY=off GOSUMDB=off GOTOOLCHAIN=local
mkdir -p "$WORK" || exit 2
(cd "$HERE" && go build -o "$WORK/extract.bin" .) || { echo "run.sh: cannot build the extractor" >&2; exit 2; }
"$WORK/extract.bin" -src "$SRC" -out "$WORK"
rc=$?
rm -f "$WORK/extract.bin"
if [ $rc -ne 0 ]; then
  echo "run.sh: extraction FAILED CLOSED (exit $rc): no verdict" >&2
  exit 1
fi
mkdir -p "$COQ/Gen" && cp "$WORK/Skeleton.v" "$COQ/Gen/Skeleton.v" || exit 2
cd "$COQ" || exit 2
for f in Lock/LockModel Lock/LockProofs Lock/SodPolicy; do
  if [ ! -f "$f.vo" ] || [ "$f.v" -nt "$f.vo" ] || { [ "$f" != Lock/LockModel ] && [ Lock/LockModel.vo -nt "$f.vo" ]; }; then
    timeout 600 coqc -Q . Sod "$f.v" > "$WORK/$(basename $f).log" 2>&1 || { cat "$WORK/$(basename $f).log" >&2; echo "run.sh: coqc $f.v failed" >&2; exit 2; }
  fi
done
timeout 600 coqc -Q . Sod Gen/Skeleton.v > "$WORK/Skeleton.log" 2>&1 || { cat "$WORK/Skeleton.log" >&2; echo "run.sh: generated Skeleton.v does not compile" >&2; exit 2; }
timeout 900 coqc -Q . Sod Lock/SodCheck.v > "$WORK/SodCheck.log" 2>&1 || { cat "$WORK/SodCheck.log" >&2; echo "run.sh: SodCheck.v does not compile" >&2; exit 2; }
# verdict lines: = ("name", value) possibly spread over several lines
python3 - "$WORK" <<'EOP'
import json, re, sys
work = sys.argv[1]
txt = open(work + '/SodCheck.log').read()
for m in re.finditer(r'=\s*(\("[A-Za-z0-9_]+",.*?\))\s*\n\s*:', txt, re.S):
    print(' '.join(m.group(1).split()))
print('assumptions:', 'closed under the global context' if 'Axioms:' not in txt and 'Closed under the global context' in txt else 'SEE ' + work + '/SodCheck.log')
r = json.load(open(work + '/report.json'))
print('extractor: %d functions, %d entry points, goroutines %s' % (r['functions'], len(r['entries']), r['spawned']))
for v in r['order']['violations']:
    print('C09 violation:', v['signature'])
for v in r['lockset']['violations']:
    print('C08 violation: %s  [group %s; roots %s; e.g. %s]' % (v['signature'], v['group'], ','.join(v['roots']), v['example_path']))
EOP
exit 0
