package main

import (
	"fmt"
	"go/types"
	"sort"
	"strings"
)

// Go-side mirror of check_stmt / check_call (LockModel.v), by inlining calls
// from every thread root. Unlike the Coq checker it goes on after a violation
// so that every counter-path is listed.

type orderViolation struct {
	Signature string `json:"signature"`
	Kind      string `json:"kind"`
	Class     string `json:"class"`
	Path      string `json:"path"`
	Pos       string `json:"pos"`
	root      *spec
}

type locksetViolation struct {
	Signature   string   `json:"signature"`
	Group       string   `json:"group"`
	Loc         string   `json:"loc"`
	Write       bool     `json:"write"`
	Held        string   `json:"held"`
	Function    string   `json:"function"`
	Roots       []string `json:"roots"`
	RootNames   []string `json:"root_names"`
	ExamplePath string   `json:"example_path"`
	Pos         string   `json:"pos"`
	HeldLists   []string `json:"held_lists"` // exact held lists (most recent first), Coq syntax
	roots       map[*spec]bool
	heldSeen    map[string]bool
}

type checker struct {
	w       *world
	root    *spec
	path    []*spec
	order   map[string]*orderViolation
	lockset map[string]*locksetViolation
	badRoot map[*spec]map[string]bool // root -> "order" / "lockset"
	depth   int
}

type hlist []heldEntry // most recent first

func (h hlist) eq(o hlist) bool {
	if len(h) != len(o) {
		return false
	}
	for i := range h {
		if h[i] != o[i] {
			return false
		}
	}
	return true
}

func (h hlist) push(e heldEntry) hlist {
	return append(hlist{e}, h...)
}

func (h hlist) removeOne(e heldEntry) (hlist, bool) {
	for i := range h {
		if h[i] == e {
			r := append(hlist{}, h[:i]...)
			return append(r, h[i+1:]...), true
		}
	}
	return h, false
}

func (h hlist) String() string {
	if len(h) == 0 {
		return "none"
	}
	var s []string
	seen := map[string]bool{}
	for _, e := range h {
		x := fmt.Sprintf("%s:%c", e.c.name(), e.m)
		if !seen[x] {
			seen[x] = true
			s = append(s, x)
		}
	}
	sort.Strings(s)
	return strings.Join(s, ",")
}

func (h hlist) coq() string {
	var s []string
	for _, e := range h {
		s = append(s, fmt.Sprintf("(%s, %c)", e.c.coq(), e.m))
	}
	return "[" + strings.Join(s, "; ") + "]"
}

type cres struct {
	norm  *hlist // nil: never completes normally
	exits map[*node][]hlist
}

func (c *checker) pathString() string {
	var s []string
	for _, sp := range c.path {
		s = append(s, sp.short)
	}
	return strings.Join(s, "->")
}

func (c *checker) reportOrder(kind, class string, n *node) {
	p := c.pathString()
	sig := kind + "|" + class + "|" + p
	if c.badRoot[c.root] == nil {
		c.badRoot[c.root] = map[string]bool{}
	}
	c.badRoot[c.root]["order"] = true
	if kind != "order" && kind != "reentrant" && kind != "wait-under-lock" {
		// structural failures make the Coq checker fail for both guards
		c.badRoot[c.root]["lockset"] = true
	}
	if _, ok := c.order[sig]; ok {
		return
	}
	pos := ""
	if n != nil && n.pos.IsValid() {
		pos = c.w.pos(n.pos)
	}
	c.order[sig] = &orderViolation{Signature: sig, Kind: kind, Class: class, Path: p, Pos: pos, root: c.root}
}

// lazilyLoadedLoc: classes that calls holding only the handle read lock may
// write (under DB.sl on fixed trees): on a tree without DB.sl both the write
// and the reads that race with it are the same defect (D11).
func lazilyLoadedLoc(loc string) bool {
	return loc == "DB.schemas" || loc == "Async.routineStarted"
}

func (c *checker) group(h hlist, write bool, loc string) string {
	rootIsSearch := false
	if c.root.lit == nil && c.root.fn != nil {
		if sig := c.root.fn.Type().(*types.Signature); sig.Recv() != nil {
			rootIsSearch = c.w.pkgNamed(sig.Recv().Type()) == "Search"
		}
	}
	switch {
	case len(h) == 0 && rootIsSearch:
		return "unlocked-search"
	case (write || lazilyLoadedLoc(loc)) && h.String() == "DB.l:R":
		return "write-under-read-lock"
	case len(h) == 0 && c.root.lit != nil && c.root.spawn:
		return "flusher-unlocked-settings"
	}
	return "ungrouped"
}

func (c *checker) reportAccess(n *node, h hlist) {
	if c.badRoot[c.root] == nil {
		c.badRoot[c.root] = map[string]bool{}
	}
	c.badRoot[c.root]["lockset"] = true
	mode := "R"
	if n.write {
		mode = "W"
	}
	fn := c.path[len(c.path)-1]
	sig := fmt.Sprintf("unguarded|%s|%s|held=%s|%s", n.loc, mode, h.String(), fn.short)
	g := c.group(h, n.write, n.loc)
	key := sig + "#" + g
	v := c.lockset[key]
	if v == nil {
		v = &locksetViolation{Signature: sig, Group: g, Loc: n.loc, Write: n.write, Held: h.String(),
			Function: fn.name, ExamplePath: c.pathString(), Pos: c.w.pos(n.pos), roots: map[*spec]bool{},
			heldSeen: map[string]bool{}}
		c.lockset[key] = v
	}
	v.roots[c.root] = true
	if hl := h.coq(); !v.heldSeen[hl] {
		v.heldSeen[hl] = true
		v.HeldLists = append(v.HeldLists, hl)
		sort.Strings(v.HeldLists)
	}
}

func mergeNorm(a, b *hlist) (*hlist, bool) {
	if a == nil {
		return b, true
	}
	if b == nil {
		return a, true
	}
	if a.eq(*b) {
		return a, true
	}
	return a, false
}

func addExits(dst map[*node][]hlist, src map[*node][]hlist) {
	for k, hs := range src {
		for _, h := range hs {
			dup := false
			for _, o := range dst[k] {
				if o.eq(h) {
					dup = true
				}
			}
			if !dup {
				dst[k] = append(dst[k], h)
			}
		}
	}
}

func (c *checker) stmt(h hlist, n *node) cres {
	r := cres{exits: map[*node][]hlist{}}
	switch n.kind {
	case nSkip, nHook:
		r.norm = &h
	case nAcc:
		if !n.local && !accessAllowed(n.loc, n.write, h) {
			c.reportAccess(n, h)
		}
		r.norm = &h
	case nWait:
		if len(h) > 0 {
			c.reportOrder("wait-under-lock", h[0].c.name(), n)
		}
		r.norm = &h
	case nDiverge:
		r.norm = nil
	case nAcq:
		same, higher := false, false
		for _, e := range h {
			if e.c == n.class {
				same = true
			} else if e.c.rank() >= n.class.rank() {
				higher = true
			}
		}
		if same {
			c.reportOrder("reentrant", n.class.name(), n)
		} else if higher {
			c.reportOrder("order", n.class.name(), n)
		}
		nh := h.push(heldEntry{n.class, n.mode})
		r.norm = &nh
	case nRel:
		nh, ok := h.removeOne(heldEntry{n.class, n.mode})
		if !ok {
			c.reportOrder("unbalanced", n.class.name(), n)
		}
		r.norm = &nh
	case nGo:
		if !n.callee.spawn {
			c.reportOrder("spawn-of-unmarked-function", n.callee.short, n)
		}
		r.norm = &h
	case nCall:
		r.norm = c.call(n.callee, h, n)
	case nSeq:
		cur := &h
		for _, k := range n.kids {
			kr := c.stmt(*cur, k)
			addExits(r.exits, kr.exits)
			cur = kr.norm
			if cur == nil {
				break
			}
		}
		r.norm = cur
	case nAlt:
		var norm *hlist
		for i, k := range n.kids {
			kr := c.stmt(h, k)
			addExits(r.exits, kr.exits)
			if i == 0 {
				norm = kr.norm
				continue
			}
			var ok bool
			norm, ok = mergeNorm(norm, kr.norm)
			if !ok {
				c.reportOrder("unbalanced-join", joinClasses(*norm, *kr.norm), k)
			}
		}
		r.norm = norm
	case nLoop:
		kr := c.stmt(h, n.kids[0])
		addExits(r.exits, kr.exits)
		if kr.norm != nil && !kr.norm.eq(h) {
			c.reportOrder("unbalanced-join", joinClasses(h, *kr.norm), n)
		}
		r.norm = nil
	case nBlock:
		kr := c.stmt(h, n.kids[0])
		norm := kr.norm
		for _, eh := range kr.exits[n] {
			eh := eh
			var ok bool
			norm, ok = mergeNorm(norm, &eh)
			if !ok {
				c.reportOrder("unbalanced-join", joinClasses(*norm, eh), n)
			}
		}
		delete(kr.exits, n)
		addExits(r.exits, kr.exits)
		r.norm = norm
	case nExit:
		r.exits[n.target] = []hlist{h}
		r.norm = nil
	}
	return r
}

// joinClasses names the lock classes on which two held lists differ.
func joinClasses(a, b hlist) string {
	cnt := map[string]int{}
	for _, e := range a {
		cnt[e.c.name()]++
	}
	for _, e := range b {
		cnt[e.c.name()]--
	}
	var s []string
	for k, v := range cnt {
		if v != 0 {
			s = append(s, k)
		}
	}
	sort.Strings(s)
	if len(s) == 0 {
		return "order-of-acquisition"
	}
	return strings.Join(s, ",")
}

func (c *checker) call(sp *spec, h hlist, at *node) *hlist {
	if len(c.path) > 0 && sp.index >= c.path[len(c.path)-1].index {
		c.reportOrder("cycle-call", sp.short, at)
		return &h
	}
	c.path = append(c.path, sp)
	r := c.stmt(h, sp.body)
	c.path = c.path[:len(c.path)-1]
	if len(r.exits) > 0 {
		c.path = append(c.path, sp)
		c.reportOrder("escaping-exit", sp.short, at)
		c.path = c.path[:len(c.path)-1]
	}
	return r.norm
}

func (c *checker) checkRoot(sp *spec) {
	c.root = sp
	c.path = []*spec{sp}
	r := c.stmt(hlist{}, sp.body)
	if len(r.exits) > 0 {
		c.reportOrder("escaping-exit", sp.short, nil)
	}
	if r.norm != nil && len(*r.norm) > 0 {
		c.reportOrder("leak", (*r.norm)[0].c.name(), nil)
	}
}

func runChecker(w *world, order []*spec) *checker {
	c := &checker{w: w, order: map[string]*orderViolation{}, lockset: map[string]*locksetViolation{},
		badRoot: map[*spec]map[string]bool{}}
	for _, sp := range order {
		if sp.entry || sp.spawn {
			c.checkRoot(sp)
		}
	}
	return c
}
