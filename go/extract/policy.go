package main

import (
	"fmt"
	"strings"
)

// Go copy of the policy table of coq/Lock/SodPolicy.v (same entries, same
// order). It is emitted as policy_mirror so that Coq checks the two agree.

type req struct {
	c lclass
	m byte
}

type rule struct {
	rd, wr [][]req
}

type policyEntry struct {
	loc string
	r   rule
}

func byHandle() rule {
	return rule{rd: [][]req{{{lHandle, 'R'}}}, wr: [][]req{{{lHandle, 'W'}}}}
}

func immutable() rule { return rule{rd: [][]req{{}}, wr: nil} }

func byLock(c lclass) rule {
	return rule{rd: [][]req{{{c, 'R'}}}, wr: [][]req{{{c, 'W'}}}}
}

func pendingTable() rule {
	return rule{
		rd: [][]req{{{lclass{1, 1}, 'R'}}, {{lHandle, 'W'}}},
		wr: [][]req{{{lclass{1, 1}, 'W'}, {lHandle, 'W'}}},
	}
}

// lazilyLoaded: see lazily_loaded in SodPolicy.v.
func lazilyLoaded() rule {
	return rule{
		rd: [][]req{{{lHandle, 'R'}, {lSchemas, 'R'}}, {{lHandle, 'W'}}},
		wr: [][]req{{{lHandle, 'R'}, {lSchemas, 'W'}}, {{lHandle, 'W'}}},
	}
}

var sodPolicy = []policyEntry{
	// the handle
	{"DB.schemas", lazilyLoaded()},
	{"DB.ctx", immutable()}, {"DB.cancel", immutable()}, {"DB.root", immutable()},
	{"DB.cache", immutable()}, {"DB.asyncw", immutable()},
	// schemas
	{"Schema.db", immutable()}, {"Schema.object", immutable()},
	{"Schema.transformers", byHandle()}, {"Schema.Fields", byHandle()},
	{"Schema.Extension", byHandle()}, {"Schema.Compress", byHandle()},
	{"Schema.Cache", byHandle()}, {"Schema.AsyncWrites", byHandle()},
	{"Schema.ObjectIndex", byHandle()},
	{"Async.routineStarted", lazilyLoaded()}, {"Async.Enable", byHandle()},
	{"Async.Threshold", byHandle()}, {"Async.Timeout", byHandle()},
	// the live index
	{"objIndex.i", byHandle()}, {"objIndex.uuids", byHandle()},
	{"objIndex.Fields", byHandle()}, {"objIndex.ObjectIds", byHandle()},
	{"fieldIndex.Index", byHandle()}, {"fieldIndex.objectIds", byHandle()},
	{"fieldIndex.Name", immutable()}, {"fieldIndex.Cast", immutable()},
	{"fieldIndex.Constraints", immutable()}, {"fieldIndex.nameSplit", immutable()},
	// the cache store and its per-type maps
	{"objectStore.m@cache", byLock(lclass{1, 0})},
	{"objectMap.m@cache", byLock(lclass{2, 0})},
	// the pending (async) store and its per-type maps
	{"objectStore.m@asyncw", pendingTable()},
	{"objectMap.m@asyncw", byLock(lclass{2, 1})},
	// the collection directories (files created, truncated, written, removed / opened, listed)
	{"FS.dir", byHandle()},
}

func lookupPolicy(loc string) (rule, bool) {
	for _, e := range sodPolicy {
		if e.loc == loc {
			return e.r, true
		}
	}
	return rule{}, false
}

type heldEntry struct {
	c lclass
	m byte
}

func holds(h []heldEntry, q req) bool {
	for _, e := range h {
		if e.c == q.c && (e.m == q.m || (q.m == 'R' && e.m == 'W')) {
			return true
		}
	}
	return false
}

func satDNF(h []heldEntry, d [][]req) bool {
	for _, conj := range d {
		ok := true
		for _, q := range conj {
			if !holds(h, q) {
				ok = false
			}
		}
		if ok {
			return true
		}
	}
	return false
}

// accessAllowed mirrors lockset_guard for a shared access.
func accessAllowed(loc string, write bool, h []heldEntry) bool {
	r, ok := lookupPolicy(loc)
	if !ok {
		return false
	}
	if write {
		return satDNF(h, r.wr)
	}
	return satDNF(h, r.rd)
}

func coqDNF(d [][]req) string {
	var cs []string
	for _, conj := range d {
		var qs []string
		for _, q := range conj {
			qs = append(qs, fmt.Sprintf("(%s, %c)", q.c.coq(), q.m))
		}
		cs = append(cs, "["+strings.Join(qs, "; ")+"]")
	}
	return "[" + strings.Join(cs, "; ") + "]"
}

func coqPolicy() string {
	var es []string
	for _, e := range sodPolicy {
		es = append(es, fmt.Sprintf("  (%q, {| rd := %s; wr := %s |})", e.loc, coqDNF(e.r.rd), coqDNF(e.r.wr)))
	}
	return "Definition policy_mirror : policy := [\n" + strings.Join(es, ";\n") + "\n]."
}
