package main

import (
	"fmt"
	"go/ast"
	"go/token"
	"go/types"
	"sort"
	"strings"

	"golang.org/x/tools/go/packages"
)

// world is the loaded package plus the configuration of the extraction.
type world struct {
	pkg        *packages.Package
	fset       *token.FileSet
	info       *types.Info
	srcDir     string
	shared     map[string]bool // tracked struct types
	entryTypes map[string]bool // receiver types whose exported methods are entry points
	unmarshal  map[string]bool // names of unmarshal functions ("unmarshalJsonFile", "encoding/json.Unmarshal")
	marshal    map[string]bool // encoding functions that read their argument by reflection

	decls     map[*types.Func]*ast.FuncDecl
	declOrder []*types.Func
	prims     map[*types.Func]*primitive // exported lock wrappers
	litIndex  map[*ast.FuncLit]int       // index of a literal in its enclosing declaration
	litOwner  map[*ast.FuncLit]*types.Func

	specs     map[string]*spec
	specOrder []*spec
	stack     []*spec

	errs    []string // fail-closed errors (deduplicated)
	errSeen map[string]bool
	notes   map[string]bool
	regions map[token.Pos]int // stable region ids of allocation sites
}

type primitive struct {
	method string // Lock | RLock | Unlock | RUnlock
	field  string // the mutex field of the receiver that is operated on
}

func loadWorld(src string) (*world, error) {
	cfg := &packages.Config{
		Mode: packages.NeedName | packages.NeedFiles | packages.NeedSyntax | packages.NeedTypes |
			packages.NeedTypesInfo | packages.NeedDeps | packages.NeedImports,
		Dir:   src,
		Tests: false,
	}
	pkgs, err := packages.Load(cfg, ".")
	if err != nil {
		return nil, fmt.Errorf("loading %s: %v", src, err)
	}
	if len(pkgs) != 1 {
		return nil, fmt.Errorf("loading %s: expected one package, got %d", src, len(pkgs))
	}
	p := pkgs[0]
	if len(p.Errors) > 0 {
		var ms []string
		for _, e := range p.Errors {
			ms = append(ms, e.Error())
		}
		return nil, fmt.Errorf("loading %s: %s", src, strings.Join(ms, "; "))
	}
	if p.Types == nil || p.TypesInfo == nil || len(p.Syntax) == 0 {
		return nil, fmt.Errorf("loading %s: no type information", src)
	}
	w := &world{
		pkg: p, fset: p.Fset, info: p.TypesInfo, srcDir: src,
		decls:    map[*types.Func]*ast.FuncDecl{},
		prims:    map[*types.Func]*primitive{},
		litIndex: map[*ast.FuncLit]int{},
		litOwner: map[*ast.FuncLit]*types.Func{},
		specs:    map[string]*spec{},
		errSeen:  map[string]bool{},
		notes:    map[string]bool{},
		regions:  map[token.Pos]int{},
	}
	// deterministic order: by file name then position
	files := append([]*ast.File(nil), p.Syntax...)
	sort.Slice(files, func(i, j int) bool {
		return w.fset.Position(files[i].Pos()).Filename < w.fset.Position(files[j].Pos()).Filename
	})
	for _, f := range files {
		for _, d := range f.Decls {
			fd, ok := d.(*ast.FuncDecl)
			if !ok || fd.Body == nil {
				continue
			}
			obj, _ := w.info.Defs[fd.Name].(*types.Func)
			if obj == nil {
				continue
			}
			w.decls[obj] = fd
			w.declOrder = append(w.declOrder, obj)
			n := 0
			ast.Inspect(fd.Body, func(x ast.Node) bool {
				if fl, ok := x.(*ast.FuncLit); ok {
					w.litIndex[fl] = n
					w.litOwner[fl] = obj
					n++
				}
				return true
			})
		}
	}
	return w, nil
}

func (w *world) pos(p token.Pos) string {
	ps := w.fset.Position(p)
	name := ps.Filename
	if i := strings.LastIndex(name, "/"); i >= 0 {
		name = name[i+1:]
	}
	return fmt.Sprintf("%s:%d", name, ps.Line)
}

// failClosed records an extraction error: the construct cannot be translated
// soundly. Extraction goes on so that every such error is listed.
func (w *world) failClosed(p token.Pos, format string, args ...interface{}) {
	m := fmt.Sprintf("%s: %s", w.pos(p), fmt.Sprintf(format, args...))
	if !w.errSeen[m] {
		w.errSeen[m] = true
		w.errs = append(w.errs, m)
	}
}

func (w *world) note(format string, args ...interface{}) {
	w.notes[fmt.Sprintf(format, args...)] = true
}

// ---- type helpers --------------------------------------------------------

func deref(t types.Type) types.Type {
	if t == nil {
		return nil
	}
	if p, ok := t.Underlying().(*types.Pointer); ok {
		return p.Elem()
	}
	return t
}

// pkgNamed returns the name of t (pointer stripped) when it is a named type of
// the analysed package.
func (w *world) pkgNamed(t types.Type) string {
	t = deref(t)
	if t == nil {
		return ""
	}
	if n, ok := t.(*types.Named); ok && n.Obj().Pkg() == w.pkg.Types {
		return n.Obj().Name()
	}
	return ""
}

// trackedName returns T when t is T or *T for a tracked struct type T.
func (w *world) trackedName(t types.Type) string {
	n := w.pkgNamed(t)
	if n != "" && w.shared[n] {
		return n
	}
	return ""
}

func isPointer(t types.Type) bool {
	if t == nil {
		return false
	}
	_, ok := t.Underlying().(*types.Pointer)
	return ok
}

func fromSync(t types.Type) bool {
	t = deref(t)
	if n, ok := t.(*types.Named); ok && n.Obj().Pkg() != nil && n.Obj().Pkg().Path() == "sync" {
		return true
	}
	return false
}

// containsSync reports whether a value of type t embeds (by value) something
// from package sync, i.e. whether copying it copies a mutex.
func containsSync(t types.Type, depth int) bool {
	if t == nil || depth > 6 {
		return false
	}
	if n, ok := t.(*types.Named); ok && n.Obj().Pkg() != nil && n.Obj().Pkg().Path() == "sync" {
		return true
	}
	switch u := t.Underlying().(type) {
	case *types.Struct:
		for i := 0; i < u.NumFields(); i++ {
			if containsSync(u.Field(i).Type(), depth+1) {
				return true
			}
		}
	case *types.Array:
		return containsSync(u.Elem(), depth+1)
	}
	return false
}

func isChan(t types.Type) bool {
	if t == nil {
		return false
	}
	_, ok := t.Underlying().(*types.Chan)
	return ok
}

func unparen(e ast.Expr) ast.Expr {
	for {
		p, ok := e.(*ast.ParenExpr)
		if !ok {
			return e
		}
		e = p.X
	}
}
