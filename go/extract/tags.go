package main

import (
	"go/ast"
	"go/token"
	"go/types"
)

// Region ids: slot i of the current specialisation owns region i+1;
// allocation sites get ids from siteBase upwards (stable per source position).
const siteBase = 1000

func (w *world) regionFor(p token.Pos) int {
	if r, ok := w.regions[p]; ok {
		return r
	}
	r := siteBase + len(w.regions)
	w.regions[p] = r
	return r
}

// fresh: the tag of an object allocated at position p. Once objects of that
// allocation site have been published (or tainted by shared content) the
// site stays shared for the rest of the function (flow-insensitive, safe).
func (t *tr) fresh(p token.Pos) tag {
	r := t.w.regionFor(p)
	if t.dead[r] {
		return tagS
	}
	return tag{k: 'F', region: r}
}

// carriesTracked: a value of type ty is, or contains references to, objects
// of a tracked type other than DB (whose tag never depends on the root).
func (t *tr) carriesTracked(ty types.Type, depth int) bool {
	if ty == nil || depth > 6 {
		return false
	}
	if tn := t.w.trackedName(ty); tn != "" {
		return tn != "DB"
	}
	switch u := ty.Underlying().(type) {
	case *types.Pointer:
		return t.carriesTracked(u.Elem(), depth+1)
	case *types.Slice:
		return t.carriesTracked(u.Elem(), depth+1)
	case *types.Array:
		return t.carriesTracked(u.Elem(), depth+1)
	case *types.Map:
		return t.carriesTracked(u.Elem(), depth+1) || t.carriesTracked(u.Key(), depth+1)
	}
	return false
}

func (t *tr) varOf(id *ast.Ident) *types.Var {
	if id == nil {
		return nil
	}
	if o, ok := t.w.info.Defs[id].(*types.Var); ok && o != nil {
		return o
	}
	if o, ok := t.w.info.Uses[id].(*types.Var); ok {
		return o
	}
	return nil
}

func (t *tr) isDBType(ty types.Type) bool { return t.w.pkgNamed(ty) == "DB" }

// byValueTracked: a struct variable of tracked type held by value.
func (t *tr) byValueTracked(ty types.Type) bool {
	if ty == nil || isPointer(ty) {
		return false
	}
	return t.w.trackedName(ty) != ""
}

func (t *tr) typeOf(e ast.Expr) types.Type { return t.w.info.TypeOf(e) }

// tagOf computes the ownership tag of an expression (no events).
func (t *tr) tagOf(e ast.Expr) tag {
	if e == nil {
		return tagS
	}
	if ty := t.typeOf(e); ty != nil && t.isDBType(ty) {
		return tagS
	}
	switch x := e.(type) {
	case *ast.Ident:
		v := t.varOf(x)
		if v == nil {
			return tagS
		}
		if tg, ok := t.env[v]; ok {
			return tg
		}
		return tagS
	case *ast.ParenExpr:
		return t.tagOf(x.X)
	case *ast.StarExpr:
		return t.tagOf(x.X)
	case *ast.UnaryExpr:
		if x.Op == token.AND {
			return t.tagOf(x.X)
		}
		return tagS
	case *ast.IndexExpr:
		return t.tagOf(x.X)
	case *ast.SliceExpr:
		return t.tagOf(x.X)
	case *ast.TypeAssertExpr:
		return t.tagOf(x.X)
	case *ast.SelectorExpr:
		sel := t.w.info.Selections[x]
		if sel == nil || sel.Kind() != types.FieldVal {
			return tagS
		}
		if t.isDBType(t.typeOf(x.X)) {
			switch x.Sel.Name {
			case "cache":
				return tag{k: 'C'}
			case "asyncw":
				return tag{k: 'A'}
			}
		}
		return t.tagOf(x.X)
	case *ast.CompositeLit:
		return t.fresh(x.Pos())
	case *ast.CallExpr:
		return t.callTag(x, 0)
	}
	return tagS
}

// callTag: tag of result i of a call expression.
func (t *tr) callTag(c *ast.CallExpr, i int) tag {
	fun := unparen(c.Fun)
	if tv, ok := t.w.info.Types[fun]; ok && tv.IsType() {
		if len(c.Args) == 1 {
			return t.tagOf(c.Args[0])
		}
		return tagS
	}
	if id, ok := fun.(*ast.Ident); ok {
		if b, ok := t.w.info.Uses[id].(*types.Builtin); ok {
			switch b.Name() {
			case "new", "make":
				return t.fresh(c.Pos())
			case "append":
				if len(c.Args) > 0 {
					return t.tagOf(c.Args[0])
				}
			}
			return tagS
		}
	}
	fn, recv := t.callee(c)
	if fn == nil || fn.Pkg() != t.w.pkg.Types || t.isIfaceMethod(fn) {
		return tagS
	}
	if t.w.prims[fn] != nil {
		return tagS
	}
	sp, args := t.specForCall(fn, recv, c)
	t.w.ensure(sp)
	if sp.state != 2 || i >= len(sp.retTag) {
		return tagS // recursion guard: not fresh
	}
	rt := sp.retTag[i]
	if rt.k == 'F' {
		if rt.region == -1 {
			return tag{k: 'F', region: t.w.regionFor(c.Pos() + token.Pos(i))}
		}
		if rt.region >= 1 && rt.region <= len(args) {
			return args[rt.region-1]
		}
		return tagS
	}
	return rt
}

// callee resolves the statically known target of a call and its receiver
// expression (nil for plain functions).
func (t *tr) callee(c *ast.CallExpr) (*types.Func, ast.Expr) {
	switch f := unparen(c.Fun).(type) {
	case *ast.Ident:
		fn, _ := t.w.info.Uses[f].(*types.Func)
		return fn, nil
	case *ast.SelectorExpr:
		if sel := t.w.info.Selections[f]; sel != nil {
			if sel.Kind() == types.MethodVal {
				fn, _ := sel.Obj().(*types.Func)
				return fn, f.X
			}
			return nil, nil // field of func type
		}
		fn, _ := t.w.info.Uses[f.Sel].(*types.Func) // qualified identifier
		return fn, nil
	}
	return nil, nil
}

func (t *tr) isIfaceMethod(fn *types.Func) bool {
	sig, _ := fn.Type().(*types.Signature)
	if sig == nil || sig.Recv() == nil {
		return false
	}
	_, ok := sig.Recv().Type().Underlying().(*types.Interface)
	return ok
}

// ---- environment updates --------------------------------------------------

func (t *tr) setVar(v *types.Var, tg tag) {
	if v == nil || t.env == nil {
		return
	}
	if tg.k == 'S' || (tg.k == 'F' && t.dead[tg.region]) {
		delete(t.env, v)
		return
	}
	t.env[v] = tg
}

// publish: the objects of region r become shared.
func (t *tr) publish(r int) {
	if r <= 0 {
		return
	}
	if r <= len(t.publishes) {
		t.publishes[r-1] = true
	}
	if t.dead == nil {
		t.dead = map[int]bool{}
	}
	t.dead[r] = true
	for v, tg := range t.env {
		if tg.k == 'F' && tg.region == r {
			delete(t.env, v)
		}
	}
}

func (t *tr) publishTag(tg tag) {
	if tg.k == 'F' {
		t.publish(tg.region)
	}
}

// merge: objects of region b become reachable from region a.
func (t *tr) merge(a, b int) {
	if a == b || a <= 0 || b <= 0 {
		return
	}
	// keep parameter regions as representative so that summaries stay right
	if b <= len(t.publishes) && a > len(t.publishes) {
		a, b = b, a
	}
	if b <= len(t.publishes) {
		// two parameter regions: cannot be expressed in the summary, be safe
		t.publish(a)
		t.publish(b)
		return
	}
	for v, tg := range t.env {
		if tg.k == 'F' && tg.region == b {
			t.env[v] = tag{k: 'F', region: a}
		}
	}
}

// store: value with tag val is stored into a location whose root has tag root.
func (t *tr) store(root, val tag) {
	if val.k != 'F' {
		return
	}
	if t.dead[val.region] {
		// the stored object is already shared: see storeShared
		if root.k == 'F' {
			t.publish(root.region)
		}
		return
	}
	if root.k == 'F' {
		t.merge(root.region, val.region)
		return
	}
	t.publish(val.region)
}

// storeShared: a value that is not fresh and carries references to tracked
// objects is stored into a fresh container: what is read back through the
// container is shared, so the container stops being treated as thread-local.
func (t *tr) storeShared(root tag, val tag, valType types.Type) {
	if root.k != 'F' || val.k == 'F' {
		return
	}
	if t.carriesTracked(valType, 0) {
		t.publish(root.region)
	}
}
