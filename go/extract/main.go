// Command extract turns the Go package 0xrawsec/sod into a Coq "lock
// skeleton" (Sod.Lock.LockModel.program) for the machine-checked lock
// discipline (properties C08 and C09), and runs a Go-side mirror of the Coq
// checker to produce human-readable counter-paths.
package main

import (
	"flag"
	"fmt"
	"os"
	"strings"
)

func set(csv string) map[string]bool {
	m := map[string]bool{}
	for _, s := range strings.Split(csv, ",") {
		if s = strings.TrimSpace(s); s != "" {
			m[s] = true
		}
	}
	return m
}

func main() {
	src := flag.String("src", "", "directory of the sod source tree")
	out := flag.String("out", "", "output directory")
	module := flag.String("module", "Sod.Gen.Skeleton", "logical name of the generated module (header comment only)")
	shared := flag.String("shared", "DB,Schema,Async,objIndex,fieldIndex,objectStore,objectMap", "tracked struct types")
	entryTypes := flag.String("entry-types", "DB,Search", "types whose exported methods are entry points")
	unmarshal := flag.String("unmarshal", "", "additional unmarshal functions (name, or importpath.Name), comma separated")
	marshal := flag.String("marshal", "", "additional encoding functions that read their argument by reflection (importpath.Name), comma separated")
	flag.Parse()
	if *src == "" || *out == "" {
		fmt.Fprintln(os.Stderr, "usage: extract -src <dir> -out <dir> [-module Sod.Gen.Skeleton]")
		os.Exit(2)
	}
	w, err := loadWorld(*src)
	if err != nil {
		fmt.Fprintln(os.Stderr, "extract:", err)
		os.Exit(1)
	}
	w.shared = set(*shared)
	w.entryTypes = set(*entryTypes)
	w.unmarshal = set("unmarshalJsonFile,encoding/json.Unmarshal," + *unmarshal)
	w.marshal = set("encoding/json.Marshal,encoding/json.MarshalIndent," + *marshal)

	w.run()
	var order []*spec
	var cycles []string
	if len(w.errs) == 0 {
		order, cycles = w.postProcess()
	}
	if len(w.errs) == 0 {
		if err := os.MkdirAll(*out, 0755); err != nil {
			fmt.Fprintln(os.Stderr, "extract:", err)
			os.Exit(1)
		}
		if err := w.writeSkeletonV(outPath(*out, "Skeleton.v"), *module, order); err != nil {
			fmt.Fprintln(os.Stderr, "extract:", err)
			os.Exit(1)
		}
	}
	if len(w.errs) > 0 {
		fmt.Fprintf(os.Stderr, "extract: FAIL CLOSED: %d construct(s) cannot be translated soundly\n", len(w.errs))
		for _, e := range w.errs {
			fmt.Fprintln(os.Stderr, "  "+e)
		}
		os.Exit(1)
	}
	c := runChecker(w, order)
	if err := w.writeListing(outPath(*out, "skeleton.txt"), order); err != nil {
		fmt.Fprintln(os.Stderr, "extract:", err)
		os.Exit(1)
	}
	if err := w.writeReport(outPath(*out, "report.json"), order, cycles, c); err != nil {
		fmt.Fprintln(os.Stderr, "extract:", err)
		os.Exit(1)
	}
	fmt.Printf("extract: %d functions, %d order violation(s), %d lockset violation(s); output in %s\n",
		len(order), len(c.order)+len(cycles), len(c.lockset), *out)
}
