#!/bin/sh
# Build the extractor, run it on a source tree, compile the generated
# Skeleton.v and compare the verdicts of the Coq checker and of the Go-side
# mirror root by root.
#   usage: selftest.sh <src> <out> [<dir holding the compiled Sod library, default /verif/coq>]
set -e
SRC=$1; OUT=$2; LIB=${3:-/verif/coq}
export GOFLAGS=-mod=mod GOPROXY=off GOSUMDB=off GOTOOLCHAIN=local
HERE=$(cd "$(dirname "$0")" && pwd)
(cd "$HERE" && go build -o "$OUT.bin" .)
rm -rf "$OUT"; mkdir -p "$OUT"
"$OUT.bin" -src "$SRC" -out "$OUT"; rm -f "$OUT.bin"
cd "$OUT"
timeout 300 coqc -Q "$LIB" Sod -Q "$OUT" Gen Skeleton.v
cat > Check.v <<'EOV'
From Coq Require Import List String.
From Sod.Lock Require Import LockModel SodPolicy.
From Gen Require Import Skeleton.
Import ListNotations.
Time Eval vm_compute in lock_order_ok skeleton.
Time Eval vm_compute in lockset_ok sod_policy skeleton.
Eval vm_compute in policy_eqb sod_policy policy_mirror.
Definition roots := filter (fun f => is_entry skeleton f || is_spawn skeleton f)%bool (seq 0 (List.length skeleton)).
Eval vm_compute in filter (fun f => negb (check_root skeleton order_guard f)) roots.
Eval vm_compute in filter (fun f => negb (check_root skeleton (lockset_guard sod_policy) f)) roots.
EOV
timeout 300 coqc -Q "$LIB" Sod -Q "$OUT" Gen Check.v > coq.out 2>&1 || { cat coq.out; exit 1; }
python3 - <<'EOP'
import json, re, sys
r = json.load(open('report.json'))
go_o = [x['index'] for x in r['roots'] if not x['order_ok']]
go_l = [x['index'] for x in r['roots'] if not x['lockset_ok']]
txt = open('coq.out').read()
print("lock_order_ok, lockset_ok, policy_eqb =", re.findall(r'= (true|false)', txt),
      "times", re.findall(r'Finished transaction in ([0-9.]+) secs', txt))
lists = re.findall(r'= \[([^\]]*)\]\s*:\s*list fid', txt)
coq = [[int(x) for x in re.split(r'[;\s]+', l.strip()) if x] for l in lists]
ok = coq[0] == go_o and coq[1] == go_l
print("order   roots failing: coq", coq[0], "go", go_o)
print("lockset roots failing: coq", coq[1], "go", go_l)
print("AGREE" if ok else "DISAGREE")
for v in r['order']['violations']:
    print("  ", v['signature'])
print("  lockset groups", r['lockset']['groups'])
sys.exit(0 if ok else 1)
EOP
