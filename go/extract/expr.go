package main

import (
	"go/ast"
	"go/token"
	"go/types"
	"strings"
)

// expr emits the events of evaluating e (reads), in evaluation order.
func (t *tr) expr(e ast.Expr) {
	switch x := e.(type) {
	case nil:
	case *ast.Ident:
		t.identUse(x)
	case *ast.BasicLit:
	case *ast.ParenExpr:
		t.expr(x.X)
	case *ast.StarExpr:
		t.expr(x.X)
	case *ast.UnaryExpr:
		if x.Op == token.AND {
			if ty := t.typeOf(x.X); ty != nil && fromSync(ty) {
				t.w.failClosed(x.Pos(), "address of a sync primitive taken")
				return
			}
		}
		t.expr(x.X)
		if x.Op == token.ARROW && !t.inComm {
			t.emit(&node{kind: nWait, pos: x.Pos(), note: "channel receive"})
		}
	case *ast.BinaryExpr:
		t.expr(x.X)
		if x.Op == token.LAND || x.Op == token.LOR {
			before := t.env.clone()
			r := t.capture(func() { t.expr(x.Y) })
			t.env = joinEnvs(before, t.env)
			if !isEmpty(r) {
				t.emit(alt(r, skip()))
			}
			return
		}
		t.expr(x.Y)
	case *ast.KeyValueExpr:
		t.expr(x.Key)
		t.expr(x.Value)
	case *ast.IndexExpr:
		t.expr(x.X)
		t.expr(x.Index)
	case *ast.IndexListExpr:
		t.expr(x.X)
	case *ast.SliceExpr:
		t.expr(x.X)
		t.expr(x.Low)
		t.expr(x.High)
		t.expr(x.Max)
	case *ast.TypeAssertExpr:
		t.expr(x.X)
	case *ast.SelectorExpr:
		t.selector(x, false)
	case *ast.CompositeLit:
		t.composite(x)
	case *ast.CallExpr:
		pre, ev := t.callParts(x)
		t.emit(pre)
		t.emit(ev)
	case *ast.FuncLit:
		if t.litHasEvents(x) {
			t.w.failClosed(x.Pos(), "function literal with lock-relevant events that is not the operand of a go statement")
		}
	case *ast.ArrayType, *ast.MapType, *ast.ChanType, *ast.FuncType, *ast.StructType, *ast.InterfaceType, *ast.Ellipsis:
	default:
		t.w.failClosed(e.Pos(), "unsupported expression %T", e)
	}
}

// identUse: a bare reference to a package function (function value) hides
// its calls; a bare sync-typed variable is a use of a sync primitive.
func (t *tr) identUse(id *ast.Ident) {
	switch o := t.w.info.Uses[id].(type) {
	case *types.Func:
		t.funcValue(o, id.Pos())
	case *types.Var:
		if fromSync(o.Type()) {
			t.w.failClosed(id.Pos(), "use of a variable of a sync type (%s)", id.Name)
		}
	}
}

func (t *tr) funcValue(fn *types.Func, p token.Pos) {
	if fn.Pkg() == nil {
		return
	}
	if fn.Pkg().Path() == "sync" {
		t.w.failClosed(p, "method value or function value from package sync (%s)", fn.Name())
		return
	}
	if fn.Pkg() != t.w.pkg.Types || t.w.decls[fn] == nil {
		return
	}
	if t.w.prims[fn] != nil {
		t.w.failClosed(p, "lock wrapper %s used as a value", fn.Name())
		return
	}
	for _, vec := range t.w.defaultVecs(fn) {
		sp := t.w.getSpec(fn, vec)
		t.w.ensure(sp)
		if !(sp.state == 2 && sp.trivial) {
			t.w.failClosed(p, "function value of %s, which has lock-relevant events", goName(fn))
			return
		}
	}
}

// selector emits the accesses of x.f; the last step is a write when w.
func (t *tr) selector(x *ast.SelectorExpr, w bool) {
	sel := t.w.info.Selections[x]
	if sel == nil {
		// qualified identifier
		switch o := t.w.info.Uses[x.Sel].(type) {
		case *types.Func:
			t.funcValue(o, x.Pos())
		case *types.Var:
			if fromSync(o.Type()) {
				t.w.failClosed(x.Pos(), "use of a package-level sync primitive")
			}
		}
		return
	}
	t.expr(x.X)
	switch sel.Kind() {
	case types.MethodVal, types.MethodExpr:
		if fn, ok := sel.Obj().(*types.Func); ok {
			if t.isIfaceMethod(fn) && fn.Pkg() == t.w.pkg.Types {
				t.w.failClosed(x.Pos(), "method value of a package interface (%s)", fn.Name())
				return
			}
			t.funcValue(fn, x.Pos())
		}
		return
	}
	// field selection, possibly through embedded fields
	base := t.tagOf(x.X)
	cur := deref(t.typeOf(x.X))
	idx := sel.Index()
	for i, fi := range idx {
		st, ok := cur.Underlying().(*types.Struct)
		if !ok {
			return
		}
		f := st.Field(fi)
		last := i == len(idx)-1
		if fromSync(f.Type()) {
			if last {
				t.w.failClosed(x.Pos(), "use of sync primitive %s outside a lock operation", f.Name())
			}
		} else if tn := t.w.trackedName(cur); tn != "" {
			t.access(tn, f.Name(), w && last, base, x.Sel.Pos())
		}
		// tag of the sub-object
		if tn := t.w.pkgNamed(cur); tn == "DB" {
			switch f.Name() {
			case "cache":
				base = tag{k: 'C'}
			case "asyncw":
				base = tag{k: 'A'}
			}
		}
		if t.isDBType(f.Type()) {
			base = tagS
		}
		cur = deref(f.Type())
	}
}

// access emits one memory access to field f of tracked type tn whose owner
// has tag own.
func (t *tr) access(tn, f string, w bool, own tag, p token.Pos) {
	loc := tn + "." + f
	if (tn == "objectStore" || tn == "objectMap") && f == "m" {
		switch own.k {
		case 'C':
			loc += "@cache"
		case 'A':
			loc += "@asyncw"
		default:
			t.w.failClosed(p, "access to %s of an %s whose instance is unknown (tag %c) in %s", loc, tn, own.k, t.sp.name)
			loc += "@unknown"
		}
	}
	t.emit(&node{kind: nAcc, loc: loc, write: w, local: own.k == 'F', pos: p})
}

// write emits the events of an assignment target: evaluation of the path,
// then the write access.
func (t *tr) write(l ast.Expr) {
	switch x := unparen(l).(type) {
	case *ast.Ident:
		if v := t.varOf(x); v != nil && fromSync(v.Type()) {
			t.w.failClosed(x.Pos(), "assignment to a variable of a sync type")
		}
	case *ast.SelectorExpr:
		sel := t.w.info.Selections[x]
		if sel == nil || sel.Kind() != types.FieldVal {
			t.expr(x)
			return
		}
		if t.fieldIsTracked(x, sel) {
			t.selector(x, true)
			return
		}
		// a field of an untracked struct held by value inside something
		// else: the write modifies the enclosing storage
		if xt := t.typeOf(x.X); xt != nil && !isPointer(xt) && !sel.Indirect() {
			t.write(x.X)
			return
		}
		t.expr(x.X)
	case *ast.IndexExpr:
		t.expr(x.Index)
		xt := t.typeOf(x.X)
		if xt != nil && isPointer(xt) {
			t.expr(x.X) // pointer to array
			return
		}
		t.write(x.X) // container content belongs to the class of the field
	case *ast.SliceExpr:
		t.expr(x.Low)
		t.expr(x.High)
		t.expr(x.Max)
		t.write(x.X)
	case *ast.StarExpr:
		if tn := t.w.trackedName(t.typeOf(x)); tn != "" && t.tagOf(x.X).k != 'F' {
			t.w.failClosed(x.Pos(), "whole-struct assignment through a pointer to shared %s", tn)
		}
		t.expr(x.X)
	default:
		t.expr(l)
	}
}

// fieldIsTracked: the last step of the selection is a field of a tracked type.
func (t *tr) fieldIsTracked(x *ast.SelectorExpr, sel *types.Selection) bool {
	cur := deref(t.typeOf(x.X))
	idx := sel.Index()
	for i, fi := range idx {
		st, ok := cur.Underlying().(*types.Struct)
		if !ok {
			return false
		}
		if i == len(idx)-1 {
			return t.w.trackedName(cur) != ""
		}
		cur = deref(st.Field(fi).Type())
	}
	return false
}

// valueUse: e is used as a value (copied). Copying a struct that contains a
// mutex is refused unless it is a literal.
func (t *tr) valueUse(e ast.Expr) {
	ty := t.typeOf(e)
	if ty == nil || isPointer(ty) {
		return
	}
	if _, ok := ty.Underlying().(*types.Struct); !ok {
		return
	}
	if !containsSync(ty, 0) {
		return
	}
	if _, ok := unparen(e).(*ast.CompositeLit); ok {
		return
	}
	t.w.failClosed(e.Pos(), "copy of a value containing a sync primitive (%s)", types.TypeString(ty, func(*types.Package) string { return "" }))
}

func (t *tr) composite(x *ast.CompositeLit) {
	own := t.fresh(x.Pos())
	_, isStruct := deref(t.typeOf(x)).Underlying().(*types.Struct)
	for _, el := range x.Elts {
		v := el
		if kv, ok := el.(*ast.KeyValueExpr); ok {
			if !isStruct {
				t.expr(kv.Key)
			}
			v = kv.Value
		}
		if cl, ok := v.(*ast.CompositeLit); ok && cl.Type == nil {
			t.composite(cl)
			continue
		}
		t.expr(v)
		t.valueUse(v)
		if tg := t.tagOf(v); tg.k == 'F' {
			t.merge(own.region, tg.region)
		} else {
			t.storeShared(own, tg, t.typeOf(v))
		}
	}
}

// ---- calls -----------------------------------------------------------------

// specForCall computes the specialisation requested by a call and the tags of
// the actual receiver and arguments, per slot.
func (t *tr) specForCall(fn *types.Func, recv ast.Expr, c *ast.CallExpr) (*spec, []tag) {
	vec, tags := t.vecForCall(fn, recv, c)
	return t.w.getSpec(fn, vec), tags
}

func (t *tr) vecForCall(fn *types.Func, recv ast.Expr, c *ast.CallExpr) ([]byte, []tag) {
	sl := t.w.slots(fn)
	sig := fn.Type().(*types.Signature)
	tags := make([]tag, len(sl))
	vec := make([]byte, len(sl))
	off := 0
	if sig.Recv() != nil {
		if recv != nil {
			tags[0] = t.tagOf(recv)
		} else {
			tags[0] = tagS
		}
		off = 1
	}
	for i := off; i < len(sl); i++ {
		ai := i - off
		tags[i] = tagS
		if sig.Variadic() && i == len(sl)-1 && !c.Ellipsis.IsValid() {
			continue // individual variadic arguments: a new slice
		}
		if ai < len(c.Args) && len(c.Args) >= sig.Params().Len() {
			tags[i] = t.tagOf(c.Args[ai])
		}
	}
	for i, s := range sl {
		// a by-value argument is a (shallow) copy: the callee owns the copy,
		// the caller's tag is kept so that a publication by the callee
		// also ends the freshness of the caller's object
		vec[i] = slotTag(s, tags[i])
	}
	return vec, tags
}

// lockClass determines the class of the mutex designated by the receiver
// expression of a lock operation.
func (t *tr) lockClass(e ast.Expr, p token.Pos) (lclass, bool) {
	return t.lockClassField(e, "", p)
}

// lockClassField: as lockClass; field names the mutex field when e is the
// object that owns it (call of a lock wrapper).
func (t *tr) lockClassField(e ast.Expr, field string, p token.Pos) (lclass, bool) {
	e = unparen(e)
	owner := e
	if ty := t.typeOf(e); ty != nil && fromSync(ty) {
		se, ok := e.(*ast.SelectorExpr)
		if !ok {
			t.w.failClosed(p, "lock operation on a sync primitive that is not a field of DB, objectStore or objectMap")
			return lclass{}, false
		}
		if sel := t.w.info.Selections[se]; sel == nil || sel.Kind() != types.FieldVal || len(sel.Index()) != 1 {
			t.w.failClosed(p, "lock operation on an unsupported mutex expression")
			return lclass{}, false
		}
		owner = se.X
		field = se.Sel.Name
	}
	switch t.w.pkgNamed(t.typeOf(owner)) {
	case "DB":
		if cl, ok := dbLockClass(field); ok {
			return cl, true
		}
		t.w.failClosed(p, "lock operation on a mutex field of DB of unknown class (%q)", field)
		return lclass{}, false
	case "objectStore", "objectMap":
		kind := 1
		if t.w.pkgNamed(t.typeOf(owner)) == "objectMap" {
			kind = 2
		}
		switch tg := t.tagOf(owner); tg.k {
		case 'C':
			return lclass{kind, 0}, true
		case 'A':
			return lclass{kind, 1}, true
		default:
			t.w.failClosed(p, "lock operation on an %s whose instance is unknown (tag %c) in %s", t.w.pkgNamed(t.typeOf(owner)), tg.k, t.sp.name)
			return lclass{}, false
		}
	}
	t.w.failClosed(p, "lock operation on a mutex of unknown class (%s)", types.ExprString(e))
	return lclass{}, false
}

func lockNode(method string, c lclass, p token.Pos) *node {
	switch method {
	case "Lock":
		return &node{kind: nAcq, class: c, mode: 'W', pos: p}
	case "RLock":
		return &node{kind: nAcq, class: c, mode: 'R', pos: p}
	case "Unlock":
		return &node{kind: nRel, class: c, mode: 'W', pos: p}
	default:
		return &node{kind: nRel, class: c, mode: 'R', pos: p}
	}
}

// lockOwnerEvents: events of evaluating the object whose mutex is used.
func (t *tr) lockOwnerEvents(e ast.Expr) {
	e = unparen(e)
	if ty := t.typeOf(e); ty != nil && fromSync(ty) {
		if se, ok := e.(*ast.SelectorExpr); ok {
			t.expr(se.X)
		}
		return
	}
	t.expr(e)
}

// callParts translates a call: the events of its receiver and arguments, and
// the event of the call itself (nil when it has none).
func (t *tr) callParts(c *ast.CallExpr) (pre, ev *node) {
	fun := unparen(c.Fun)
	// conversion
	if tv, ok := t.w.info.Types[fun]; ok && tv.IsType() {
		return t.capture(func() { t.args(c) }), nil
	}
	// builtins
	if id, ok := fun.(*ast.Ident); ok {
		if b, ok := t.w.info.Uses[id].(*types.Builtin); ok {
			return t.capture(func() { t.builtin(b.Name(), c) }), nil
		}
	}
	// directly called literal
	if fl, ok := fun.(*ast.FuncLit); ok {
		return t.capture(func() {
			t.args(c)
			if t.litHasEvents(fl) {
				t.w.failClosed(fl.Pos(), "function literal with lock-relevant events that is not the operand of a go statement")
			}
		}), nil
	}
	fn, recv := t.callee(c)
	if fn == nil {
		// value of func type: no event
		return t.capture(func() { t.expr(fun); t.args(c) }), nil
	}
	if fn.Pkg() != nil && fn.Pkg().Path() == "sync" {
		switch fn.Name() {
		case "Lock", "RLock", "Unlock", "RUnlock":
			if recv != nil {
				pre = t.capture(func() { t.lockOwnerEvents(recv) })
				if cl, ok := t.lockClass(recv, c.Pos()); ok {
					return pre, lockNode(fn.Name(), cl, c.Pos())
				}
				return pre, nil
			}
		}
		t.w.failClosed(c.Pos(), "unsupported use of package sync (%s)", fn.Name())
		return nil, nil
	}
	if fn.Pkg() == t.w.pkg.Types {
		if t.isIfaceMethod(fn) {
			pre = t.capture(func() {
				t.expr(recv)
				t.args(c)
				for _, a := range c.Args {
					t.publishTag(t.tagOf(a))
				}
			})
			return pre, &node{kind: nHook, pos: c.Pos(), note: fn.Name()}
		}
		if p := t.w.prims[fn]; p != nil {
			pre = t.capture(func() { t.expr(recv) })
			if cl, ok := t.lockClassField(recv, p.field, c.Pos()); ok {
				return pre, lockNode(p.method, cl, c.Pos())
			}
			return pre, nil
		}
		if t.w.decls[fn] == nil {
			return t.capture(func() { t.expr(recv); t.args(c) }), nil
		}
		pre = t.capture(func() { t.expr(recv); t.args(c) })
		sp, tags := t.specForCall(fn, recv, c)
		t.w.ensure(sp)
		t.afterCall(sp, tags, fn, c)
		return pre, &node{kind: nCall, callee: sp, pos: c.Pos()}
	}
	// another package
	pre = t.capture(func() {
		if recv != nil {
			t.expr(recv)
		}
		t.args(c)
		t.fsRule(fn, c)
	})
	t.unmarshalRule(fn, c)
	if ev := t.marshalRule(fn, c); ev != nil {
		return seq(pre, ev), nil
	}
	return pre, nil
}

func (t *tr) args(c *ast.CallExpr) {
	for _, a := range c.Args {
		t.expr(a)
		t.valueUse(a)
	}
}

// afterCall applies the callee's summary to the caller's environment.
func (t *tr) afterCall(sp *spec, tags []tag, fn *types.Func, c *ast.CallExpr) {
	first := 0
	for i, tg := range tags {
		if tg.k != 'F' {
			continue
		}
		pub := sp.publishes
		if sp.state != 2 {
			if sp != t.sp || t.probe {
				t.publish(tg.region) // recursion guard: publishes
				continue
			}
			sp.selfCalled = true
			pub = sp.assumedPub
		}
		if i < len(pub) && pub[i] {
			t.publish(tg.region)
			continue
		}
		// fresh objects passed together may get linked by the callee
		if first == 0 {
			first = tg.region
		} else {
			t.merge(first, tg.region)
		}
	}
	t.unmarshalRule(fn, c)
}

// fsRule: the collection directories are shared between the calls of one handle exactly as the
// index is: a call of package os / io/ioutil that changes the file system (create, truncate, write,
// remove, mkdir) is a WRITE access to the location class "FS.dir", a call that reads it (open, stat,
// list) a READ access. Two calls may then touch the files concurrently only under the conditions the
// policy states for "FS.dir" (readers: the handle lock in any mode; writers: in write mode), which
// is what keeps a reader from seeing a file between its truncation and its write.
var fsWrites = map[string]bool{"os.OpenFile": true, "os.Create": true, "os.Remove": true, "os.RemoveAll": true,
	"os.Mkdir": true, "os.MkdirAll": true, "os.Rename": true, "os.WriteFile": true, "os.Truncate": true,
	"io/ioutil.WriteFile": true}
var fsReads = map[string]bool{"os.Open": true, "os.Stat": true, "os.Lstat": true, "os.ReadDir": true, "os.ReadFile": true,
	"io/ioutil.ReadFile": true, "io/ioutil.ReadDir": true}

func (t *tr) fsRule(fn *types.Func, c *ast.CallExpr) {
	if fn.Pkg() == nil {
		return
	}
	if sig := fn.Type().(*types.Signature); sig.Recv() != nil {
		return
	}
	full := fn.Pkg().Path() + "." + fn.Name()
	switch {
	case fsWrites[full]:
		t.emit(&node{kind: nAcc, loc: "FS.dir", write: true, local: false, pos: c.Pos()})
	case fsReads[full]:
		t.emit(&node{kind: nAcc, loc: "FS.dir", write: false, local: false, pos: c.Pos()})
	}
}

// unmarshalRule: after unmarshal(.., &x) the variable x designates an object
// allocated by the decoder (DESIGN Appendix F).
func (t *tr) unmarshalRule(fn *types.Func, c *ast.CallExpr) {
	name := fn.Name()
	full := name
	if fn.Pkg() != nil {
		full = fn.Pkg().Path() + "." + name
	}
	sig := fn.Type().(*types.Signature)
	if sig.Recv() != nil {
		return
	}
	if !(t.w.unmarshal[full] || (fn.Pkg() == t.w.pkg.Types && t.w.unmarshal[name])) {
		return
	}
	for _, a := range c.Args {
		u, ok := unparen(a).(*ast.UnaryExpr)
		if !ok || u.Op != token.AND {
			continue
		}
		id, ok := unparen(u.X).(*ast.Ident)
		if !ok {
			continue
		}
		v := t.varOf(id)
		if v == nil || v.Parent() == t.w.pkg.Types.Scope() || !isPointer(v.Type()) {
			continue
		}
		if t.w.trackedName(v.Type()) == "" || t.isDBType(v.Type()) {
			continue
		}
		t.setVar(v, t.fresh(a.Pos()))
	}
}

func (t *tr) builtin(name string, c *ast.CallExpr) {
	switch name {
	case "recover":
		t.w.failClosed(c.Pos(), "recover()")
	case "panic":
		t.args(c)
		t.panicExit(c.Pos())
	case "append":
		for i, a := range c.Args {
			if i > 0 {
				t.expr(a)
				t.valueUse(a)
			}
		}
		if len(c.Args) > 0 {
			if t.isTrackedFieldPath(c.Args[0]) {
				t.write(c.Args[0])
			} else {
				t.expr(c.Args[0])
			}
			base := t.tagOf(c.Args[0])
			for _, a := range c.Args[1:] {
				t.store(base, t.tagOf(a))
				t.storeShared(base, t.tagOf(a), t.typeOf(a))
			}
		}
	case "copy":
		if len(c.Args) == 2 {
			t.expr(c.Args[1])
			t.write(c.Args[0])
			t.store(t.tagOf(c.Args[0]), t.tagOf(c.Args[1]))
			t.storeShared(t.tagOf(c.Args[0]), t.tagOf(c.Args[1]), t.typeOf(c.Args[1]))
		}
	case "delete":
		if len(c.Args) == 2 {
			t.expr(c.Args[1])
			t.write(c.Args[0])
		}
	default:
		t.args(c)
	}
}

// isTrackedFieldPath: e is (a slice of / an element of) a field of a tracked type.
func (t *tr) isTrackedFieldPath(e ast.Expr) bool {
	switch x := unparen(e).(type) {
	case *ast.SelectorExpr:
		sel := t.w.info.Selections[x]
		return sel != nil && sel.Kind() == types.FieldVal && t.fieldIsTracked(x, sel)
	case *ast.SliceExpr:
		return t.isTrackedFieldPath(x.X)
	case *ast.IndexExpr:
		return t.isTrackedFieldPath(x.X)
	}
	return false
}

// ---- function literals and go statements --------------------------------------

// litHasEvents translates the body of a literal in the current environment,
// throws the result away, and reports whether it has any event other than
// accesses to thread-local objects.
func (t *tr) litHasEvents(fl *ast.FuncLit) bool {
	sub := &tr{w: t.w, sp: t.sp, env: t.env.clone(), blockEnvs: map[*node][]env{}, probe: true,
		publishes: make([]bool, len(t.publishes))}
	if sub.env == nil {
		sub.env = env{}
	}
	if fl.Type.Results != nil {
		sub.nres = fl.Type.Results.NumFields()
	}
	sub.retTags = make([][]tag, sub.nres)
	body := sub.funcBody(fl.Body.List)
	has := false
	body.walk(func(n *node) {
		switch n.kind {
		case nAcq, nRel, nGo, nHook, nWait, nDiverge:
			has = true
		case nCall:
			if !(n.callee.state == 2 && n.callee.trivial) {
				has = true
			}
		case nAcc:
			if !n.local {
				has = true
			}
		}
	})
	for i, p := range sub.publishes {
		if p && i < len(t.publishes) {
			t.publish(i + 1)
		}
	}
	return has
}

// captured returns the variables declared outside the literal that its body
// mentions, in order of first occurrence.
func (t *tr) captured(fl *ast.FuncLit) []*types.Var {
	var out []*types.Var
	seen := map[*types.Var]bool{}
	ast.Inspect(fl.Body, func(n ast.Node) bool {
		id, ok := n.(*ast.Ident)
		if !ok {
			return true
		}
		v, ok := t.w.info.Uses[id].(*types.Var)
		if !ok || v.IsField() || seen[v] {
			return true
		}
		if v.Pos() >= fl.Pos() && v.Pos() < fl.End() {
			return true
		}
		if v.Parent() == t.w.pkg.Types.Scope() {
			return true
		}
		seen[v] = true
		out = append(out, v)
		return true
	})
	return out
}

func (t *tr) goStmt(g *ast.GoStmt) {
	c := g.Call
	if fl, ok := unparen(c.Fun).(*ast.FuncLit); ok {
		t.args(c)
		le := env{}
		var digest []string
		for _, v := range t.captured(fl) {
			tg := t.varTag(v)
			if tg.k == 'F' {
				t.publish(tg.region) // captured by another thread
				tg = tagS
			}
			if tg.k != 'S' {
				le[v] = tg
			}
			if t.w.trackedName(v.Type()) != "" {
				digest = append(digest, string(tg.k))
			}
		}
		// parameters of the literal
		i := 0
		for _, f := range fl.Type.Params.List {
			for _, n := range f.Names {
				if i < len(c.Args) {
					tg := t.tagOf(c.Args[i])
					if tg.k == 'F' {
						t.publish(tg.region)
						tg = tagS
					}
					if v, ok := t.w.info.Defs[n].(*types.Var); ok && tg.k != 'S' {
						le[v] = tg
					}
					if t.w.trackedName(t.typeOf(c.Args[i])) != "" {
						digest = append(digest, string(tg.k))
					}
				}
				i++
			}
		}
		owner := t.sp
		if t.probe {
			t.w.failClosed(g.Pos(), "go statement inside a function literal that is not itself spawned")
			return
		}
		sp := t.w.getLitSpec(owner, fl, le, strings.Join(digest, ","))
		sp.spawn = true
		t.emit(&node{kind: nGo, callee: sp, pos: g.Pos()})
		return
	}
	fn, recv := t.callee(c)
	if fn == nil || fn.Pkg() != t.w.pkg.Types || t.isIfaceMethod(fn) || t.w.decls[fn] == nil || t.w.prims[fn] != nil {
		name := "value of func type"
		if fn != nil {
			name = fn.FullName()
		}
		t.w.failClosed(g.Pos(), "go statement whose target is not a function of the package or a literal (%s)", name)
		return
	}
	t.expr(recv)
	t.args(c)
	vec, tags := t.vecForCall(fn, recv, c)
	sl := t.w.slots(fn)
	for i, tg := range tags {
		if tg.k == 'F' {
			t.publish(tg.region)
		}
		if vec[i] == 'F' && !sl[i].byValue {
			vec[i] = 'S'
		}
	}
	sp := t.w.getSpec(fn, vec)
	sp.spawn = true
	t.emit(&node{kind: nGo, callee: sp, pos: g.Pos()})
}

// ---- reflective readers (encoding/json.Marshal) ----------------------------------

// marshalRule: an encoding function reads, by reflection, every exported
// field reachable from its argument, and calls the MarshalJSON methods it
// meets. The reads of fields of tracked types are emitted as accesses; a
// MarshalJSON method defined in the package becomes a call to it.
func (t *tr) marshalRule(fn *types.Func, c *ast.CallExpr) *node {
	if fn.Pkg() == nil || !t.w.marshal[fn.Pkg().Path()+"."+fn.Name()] {
		return nil
	}
	ev := t.capture(func() {
		for _, a := range c.Args {
			t.deepReadsExpr(a)
		}
	})
	if isEmpty(ev) {
		return nil
	}
	return ev
}

// deepReadsExpr: a composite literal argument is read element by element
// (each element has its own ownership); anything else through its type.
func (t *tr) deepReadsExpr(e ast.Expr) {
	x := unparen(e)
	if u, ok := x.(*ast.UnaryExpr); ok && u.Op == token.AND {
		x = unparen(u.X)
	}
	if cl, ok := x.(*ast.CompositeLit); ok {
		for _, el := range cl.Elts {
			if kv, ok := el.(*ast.KeyValueExpr); ok {
				el = kv.Value
			}
			t.deepReadsExpr(el)
		}
		return
	}
	t.deepReads(t.typeOf(e), t.tagOf(e), e.Pos(), map[string]bool{}, 0)
}

func (t *tr) marshalMethod(named *types.Named) *types.Func {
	if named.Obj().Pkg() != t.w.pkg.Types {
		return nil
	}
	for _, ty := range []types.Type{named, types.NewPointer(named)} {
		ms := types.NewMethodSet(ty)
		for i := 0; i < ms.Len(); i++ {
			if fn, ok := ms.At(i).Obj().(*types.Func); ok && fn.Name() == "MarshalJSON" && t.w.decls[fn] != nil {
				return fn
			}
		}
	}
	return nil
}

func (t *tr) deepReads(ty types.Type, own tag, p token.Pos, seen map[string]bool, depth int) {
	if ty == nil || depth > 10 {
		return
	}
	for isPointer(ty) {
		ty = deref(ty)
	}
	if t.isDBType(ty) {
		own = tagS
	}
	if named, ok := ty.(*types.Named); ok {
		key := named.String() + "/" + string(own.k)
		if seen[key] {
			return
		}
		seen[key] = true
		if m := t.marshalMethod(named); m != nil {
			if t.sp != nil && t.sp.fn == m {
				return // the method's own call of the encoder on its receiver's content
			}
			sl := t.w.slots(m)
			vec := make([]byte, len(sl))
			for i, s := range sl {
				vec[i] = slotTag(s, tagS)
			}
			if len(sl) > 0 {
				vec[0] = slotTag(sl[0], own)
			}
			sp := t.w.getSpec(m, vec)
			t.w.ensure(sp)
			t.emit(&node{kind: nCall, callee: sp, pos: p, note: "called by the encoder"})
			return
		}
	}
	switch u := ty.Underlying().(type) {
	case *types.Struct:
		tn := t.w.trackedName(ty)
		for i := 0; i < u.NumFields(); i++ {
			f := u.Field(i)
			if (!f.Exported() && !f.Embedded()) || fromSync(f.Type()) {
				continue
			}
			if tn != "" {
				t.access(tn, f.Name(), false, own, p)
			}
			t.deepReads(f.Type(), own, p, seen, depth+1)
		}
	case *types.Slice:
		t.deepReads(u.Elem(), own, p, seen, depth+1)
	case *types.Array:
		t.deepReads(u.Elem(), own, p, seen, depth+1)
	case *types.Map:
		t.deepReads(u.Elem(), own, p, seen, depth+1)
	}
}
