package main

import (
	"fmt"
	"go/ast"
	"go/types"
	"strings"
)

type slot struct {
	v       *types.Var
	tracked string
	byValue bool
}

func (w *world) slots(fn *types.Func) []slot {
	sig := fn.Type().(*types.Signature)
	var out []slot
	add := func(v *types.Var) {
		s := slot{v: v, tracked: w.trackedName(v.Type())}
		s.byValue = s.tracked != "" && !isPointer(v.Type())
		out = append(out, s)
	}
	if r := sig.Recv(); r != nil {
		add(r)
	}
	for i := 0; i < sig.Params().Len(); i++ {
		add(sig.Params().At(i))
	}
	return out
}

// slotTag normalises the tag of an actual argument for a slot.
func slotTag(s slot, tg tag) byte {
	switch {
	case s.tracked == "":
		return '-'
	case s.tracked == "DB":
		return 'S'
	case s.byValue:
		return 'F'
	}
	return tg.k
}

// defaultVecs: the specialisations in which every function is translated at
// least once (all shared; both instances for store/map receivers).
func (w *world) defaultVecs(fn *types.Func) [][]byte {
	sl := w.slots(fn)
	base := make([]byte, len(sl))
	for i, s := range sl {
		base[i] = slotTag(s, tagS)
	}
	sig := fn.Type().(*types.Signature)
	if sig.Recv() != nil && (sl[0].tracked == "objectStore" || sl[0].tracked == "objectMap") && !sl[0].byValue {
		c := append([]byte(nil), base...)
		a := append([]byte(nil), base...)
		c[0], a[0] = 'C', 'A'
		return [][]byte{c, a}
	}
	return [][]byte{base}
}

func shortName(fn *types.Func) string { return fn.Name() }

func (w *world) getSpec(fn *types.Func, vec []byte) *spec {
	key := goName(fn) + "[" + string(vec) + "]"
	if sp, ok := w.specs[key]; ok {
		return sp
	}
	sp := &spec{key: key, fn: fn, vec: append([]byte(nil), vec...), name: goName(fn) + vecString(vec),
		short: shortName(fn), nslots: len(vec), pos: fn.Pos()}
	sp.prim = w.prims[fn] != nil
	w.specs[key] = sp
	w.specOrder = append(w.specOrder, sp)
	return sp
}

func (w *world) getLitSpec(parent *spec, lit *ast.FuncLit, e env, digest string) *spec {
	n := w.litIndex[lit]
	key := fmt.Sprintf("%s$lit%d{%s}", parent.key, n, digest)
	if sp, ok := w.specs[key]; ok {
		return sp
	}
	name := fmt.Sprintf("%s$lit%d", parent.name, n)
	if strings.Trim(digest, "S-,") != "" {
		name += "{" + digest + "}"
	}
	sp := &spec{key: key, lit: lit, parent: parent, litEnv: e, name: name,
		short: fmt.Sprintf("%s$lit%d", parent.short, n), pos: lit.Pos()}
	sp.fn = parent.fn
	w.specs[key] = sp
	w.specOrder = append(w.specOrder, sp)
	return sp
}

func (w *world) isEntry(fn *types.Func) bool {
	if !fn.Exported() || w.prims[fn] != nil {
		return false
	}
	sig := fn.Type().(*types.Signature)
	if sig.Recv() == nil {
		return true
	}
	return w.entryTypes[w.pkgNamed(sig.Recv().Type())]
}

// ensure translates a specialisation now (depth first) unless it is already
// translated or being translated (recursion).
func (w *world) ensure(sp *spec) {
	if sp.state != 0 {
		return
	}
	w.translate(sp)
}

// detectPrimitives finds the lock wrappers: methods whose body is exactly one
// expression statement that is a lock operation on a field of the receiver.
func (w *world) detectPrimitives() {
	for _, fn := range w.declOrder {
		fd := w.decls[fn]
		if fd.Recv == nil || len(fd.Recv.List) != 1 || len(fd.Recv.List[0].Names) != 1 || len(fd.Body.List) != 1 {
			continue
		}
		es, ok := fd.Body.List[0].(*ast.ExprStmt)
		if !ok {
			continue
		}
		call, ok := es.X.(*ast.CallExpr)
		if !ok || len(call.Args) != 0 {
			continue
		}
		sel, ok := call.Fun.(*ast.SelectorExpr)
		if !ok {
			continue
		}
		m, _ := w.info.Uses[sel.Sel].(*types.Func)
		if m == nil || m.Pkg() == nil || m.Pkg().Path() != "sync" {
			continue
		}
		switch m.Name() {
		case "Lock", "RLock", "Unlock", "RUnlock":
		default:
			continue
		}
		fsel, ok := sel.X.(*ast.SelectorExpr)
		if !ok {
			continue
		}
		id, ok := fsel.X.(*ast.Ident)
		if !ok || w.info.Uses[id] != w.info.Defs[fd.Recv.List[0].Names[0]] {
			continue
		}
		if s := w.info.Selections[fsel]; s == nil || s.Kind() != types.FieldVal {
			continue
		}
		w.prims[fn] = &primitive{method: m.Name(), field: fsel.Sel.Name}
	}
}

// run translates every function in its default specialisations, then
// everything that was requested on the way (call sites, go statements).
func (w *world) run() {
	w.detectPrimitives()
	w.checkPackageLevelLiterals()
	for _, fn := range w.declOrder {
		for _, vec := range w.defaultVecs(fn) {
			sp := w.getSpec(fn, vec)
			sp.deflt = true
			sp.entry = w.isEntry(fn)
			w.ensure(sp)
			w.drain()
		}
	}
	w.drain()
	for i := 0; i < len(w.specOrder); i++ {
		w.ensure(w.specOrder[i])
		w.drain()
	}
}

// drain translates the queued spawn targets (they are thread roots: they are
// not translated below their spawner so that recursion through `go` is not
// mistaken for a call cycle).
func (w *world) drain() {
	for i := 0; i < len(w.specOrder); i++ {
		if sp := w.specOrder[i]; sp.state == 0 && sp.spawn && len(w.stack) == 0 {
			w.translate(sp)
			i = -1
		}
	}
}

// checkPackageLevelLiterals: a function literal stored in a package-level
// variable would be called without any event; it must be silent.
func (w *world) checkPackageLevelLiterals() {
	for _, f := range w.pkg.Syntax {
		for _, d := range f.Decls {
			gd, ok := d.(*ast.GenDecl)
			if !ok {
				continue
			}
			ast.Inspect(gd, func(n ast.Node) bool {
				fl, ok := n.(*ast.FuncLit)
				if !ok {
					return true
				}
				t := &tr{w: w, sp: &spec{name: "<package-level initialiser>"}, env: env{}, blockEnvs: map[*node][]env{}, probe: true}
				if t.litHasEvents(fl) {
					w.failClosed(fl.Pos(), "package-level function literal with lock-relevant events")
				}
				return false
			})
		}
	}
}
