package main

import (
	"go/ast"
	"go/token"
	"go/types"
)

// tr translates one specialisation.
type tr struct {
	w   *world
	sp  *spec
	env env // nil = unreachable

	buf       *[]*node
	blocks    []*node
	blockEnvs map[*node][]env
	top       []ast.Stmt // outermost statement list of the function (goto targets)

	results   []*types.Var // named results (nil when unnamed)
	nres      int
	retTags   [][]tag
	publishes []bool
	dead      map[int]bool // allocation sites whose objects may be reachable by other threads

	relevantDefer bool
	gotoPos       token.Pos
	inGoLit       bool // body of a go'd literal: panic = process termination
	inComm        bool // inside the comm clause of a select: the wait is already counted
	probe         bool // translating a non-go literal to see whether it has events
}

// translate translates a specialisation. A direct self call uses the
// publication summary assumed so far (initially: publishes nothing); when the
// computed summary is larger the translation is redone (monotone fixpoint).
// Other recursion gets the pessimistic answer (see afterCall).
func (w *world) translate(sp *spec) {
	sp.state = 1
	w.stack = append(w.stack, sp)
	for iter := 0; ; iter++ {
		sp.selfCalled = false
		t := w.translateOnce(sp)
		grown := false
		for i, p := range t.publishes {
			if p && !(i < len(sp.assumedPub) && sp.assumedPub[i]) {
				grown = true
			}
		}
		if !sp.selfCalled || !grown || iter > len(t.publishes)+1 {
			break
		}
		sp.assumedPub = append([]bool(nil), t.publishes...)
	}
	sp.trivial = directlyTrivial(sp)
	sp.state = 2
	w.stack = w.stack[:len(w.stack)-1]
}

func (w *world) translateOnce(sp *spec) *tr {
	t := &tr{w: w, sp: sp, env: env{}, blockEnvs: map[*node][]env{}}
	var body *ast.BlockStmt
	var ftype *ast.FuncType
	if sp.lit != nil {
		t.env = sp.litEnv.clone()
		if t.env == nil {
			t.env = env{}
		}
		body, ftype = sp.lit.Body, sp.lit.Type
		t.inGoLit = true
	} else {
		fd := w.decls[sp.fn]
		body, ftype = fd.Body, fd.Type
		sl := w.slots(sp.fn)
		t.publishes = make([]bool, len(sl))
		for i, s := range sl {
			switch {
			case s.tracked == "":
			case s.byValue, sp.vec[i] == 'F':
				t.env[s.v] = tag{k: 'F', region: i + 1}
			case sp.vec[i] == 'C' || sp.vec[i] == 'A':
				t.env[s.v] = tag{k: sp.vec[i]}
			}
		}
	}
	if ftype.Results != nil {
		for _, f := range ftype.Results.List {
			if len(f.Names) == 0 {
				t.results = append(t.results, nil)
				t.nres++
				continue
			}
			for _, n := range f.Names {
				v, _ := w.info.Defs[n].(*types.Var)
				t.results = append(t.results, v)
				t.nres++
				if v != nil && t.byValueTracked(v.Type()) {
					t.env[v] = t.fresh(n.Pos())
				}
			}
		}
	}
	t.retTags = make([][]tag, t.nres)
	t.top = body.List
	sp.body = t.funcBody(body.List)
	if t.gotoPos.IsValid() && t.relevantDefer {
		w.failClosed(t.gotoPos, "goto in a function with deferred lock-relevant calls")
	}
	// summaries
	sp.publishes = t.publishes
	sp.retTag = make([]tag, t.nres)
	for i := range sp.retTag {
		sp.retTag[i] = tagS
		if len(t.retTags[i]) > 0 {
			r := t.retTags[i][0]
			for _, x := range t.retTags[i][1:] {
				r = joinTag(r, x)
			}
			sp.retTag[i] = r
		}
	}
	return t
}

// directlyTrivial: no event, every callee already known to be trivial
// (self calls ignored). The global fixpoint in post.go refines this.
func directlyTrivial(sp *spec) bool {
	triv := true
	sp.body.walk(func(n *node) {
		switch n.kind {
		case nAcq, nRel, nGo, nHook, nWait, nAcc, nDiverge:
			triv = false
		case nCall:
			if n.callee != sp && !(n.callee.state == 2 && n.callee.trivial) {
				triv = false
			}
		}
	})
	return triv
}

// ---- buffers and blocks ----------------------------------------------------

func (t *tr) emit(n *node) {
	if n == nil || n.kind == nSkip {
		return
	}
	*t.buf = append(*t.buf, n)
}

func (t *tr) capture(f func()) *node {
	old := t.buf
	var b []*node
	t.buf = &b
	f()
	t.buf = old
	return seq(b...)
}

func (t *tr) push(b *node) { t.blocks = append(t.blocks, b) }
func (t *tr) pop()         { t.blocks = t.blocks[:len(t.blocks)-1] }

// exitTo leaves block b from the current point.
func (t *tr) exitTo(b *node, note string, p token.Pos) {
	if t.env != nil {
		t.blockEnvs[b] = append(t.blockEnvs[b], t.env.clone())
	}
	t.emit(&node{kind: nExit, target: b, note: note, pos: p})
	t.env = nil
}

func joinEnvs(list ...env) env {
	var r env
	for _, e := range list {
		if e == nil {
			continue
		}
		if r == nil {
			r = e.clone()
		} else {
			r = joinEnv(r, e)
		}
	}
	return r
}

func (t *tr) findBlock(pred func(*node) bool) *node {
	for i := len(t.blocks) - 1; i >= 0; i-- {
		if pred(t.blocks[i]) {
			return t.blocks[i]
		}
	}
	return nil
}

func (t *tr) retBlock() *node {
	return t.findBlock(func(b *node) bool { return b.role == "ret" })
}

// ---- function bodies and defer ---------------------------------------------

// funcBody translates the outermost statement list of a function: the first
// relevant top-level defer splits the list, the rest runs in a block of its
// own and the deferred call follows it.
func (t *tr) funcBody(list []ast.Stmt) *node {
	blk := &node{kind: nBlock, role: "ret"}
	t.push(blk)
	inner := t.capture(func() { t.bodyList(list) })
	t.pop()
	blk.kids = []*node{inner}
	return blk
}

func (t *tr) bodyList(list []ast.Stmt) {
	for k, s := range list {
		d, ok := s.(*ast.DeferStmt)
		if !ok {
			t.stmt(s)
			continue
		}
		args, call, relevant := t.deferred(d)
		t.emit(args)
		if !relevant {
			continue
		}
		t.relevantDefer = true
		t.emit(t.funcBody(list[k+1:]))
		// the deferred call (built at defer time) runs whatever way the
		// rest was left; nothing follows it
		t.emit(call)
		return
	}
}

// deferred analyses a defer statement: the events of the evaluation of its
// arguments (at defer time), the event of the call itself, and whether the
// call is relevant for the skeleton.
func (t *tr) deferred(d *ast.DeferStmt) (args, call *node, relevant bool) {
	if fl, ok := unparen(d.Call.Fun).(*ast.FuncLit); ok {
		args = t.capture(func() {
			for _, a := range d.Call.Args {
				t.expr(a)
			}
		})
		if t.litHasEvents(fl) {
			t.w.failClosed(d.Pos(), "deferred function literal with a lock-relevant body")
		}
		return args, skip(), false
	}
	if id, ok := unparen(d.Call.Fun).(*ast.Ident); ok {
		if b, ok := t.w.info.Uses[id].(*types.Builtin); ok {
			ev := t.capture(func() { t.expr(d.Call) })
			switch b.Name() {
			case "append", "copy", "delete", "panic":
				if !isEmpty(ev) {
					t.w.failClosed(d.Pos(), "deferred builtin %s with events", b.Name())
				}
			}
			return ev, skip(), false
		}
	}
	pre, ev := t.callParts(d.Call)
	if isEmpty(ev) {
		return pre, skip(), false
	}
	if ev.kind == nCall && ev.callee.state == 2 && ev.callee.trivial {
		return pre, skip(), false
	}
	return pre, ev, true
}

// ---- statements -------------------------------------------------------------

func (t *tr) stmts(list []ast.Stmt) {
	for _, s := range list {
		t.stmt(s)
	}
}

func (t *tr) stmt(s ast.Stmt) { t.labeled(s, "") }

func (t *tr) labeled(s ast.Stmt, label string) {
	switch x := s.(type) {
	case nil:
	case *ast.EmptyStmt:
	case *ast.BlockStmt:
		t.stmts(x.List)
	case *ast.LabeledStmt:
		t.labeled(x.Stmt, x.Label.Name)
	case *ast.ExprStmt:
		t.exprStmt(x)
	case *ast.DeclStmt:
		t.declStmt(x)
	case *ast.AssignStmt:
		t.assign(x)
	case *ast.IncDecStmt:
		t.write(x.X)
	case *ast.SendStmt:
		t.expr(x.Chan)
		t.expr(x.Value)
		t.valueUse(x.Value)
		t.publishTag(t.tagOf(x.Value))
		if !t.inComm {
			t.emit(&node{kind: nWait, pos: x.Pos(), note: "send"})
		}
	case *ast.ReturnStmt:
		t.returnStmt(x)
	case *ast.IfStmt:
		t.ifStmt(x)
	case *ast.ForStmt:
		t.forStmt(x, label)
	case *ast.RangeStmt:
		t.rangeStmt(x, label)
	case *ast.SwitchStmt:
		t.switchStmt(x, label)
	case *ast.TypeSwitchStmt:
		t.typeSwitchStmt(x, label)
	case *ast.SelectStmt:
		t.selectStmt(x, label)
	case *ast.BranchStmt:
		t.branch(x)
	case *ast.GoStmt:
		t.goStmt(x)
	case *ast.DeferStmt:
		args, _, relevant := t.deferred(x)
		t.emit(args)
		if relevant {
			t.w.failClosed(x.Pos(), "lock-relevant defer that is not at the top level of the function body")
		}
	default:
		t.w.failClosed(s.Pos(), "unsupported statement %T", s)
	}
}

func (t *tr) exprStmt(x *ast.ExprStmt) {
	if c, ok := unparen(x.X).(*ast.CallExpr); ok {
		if id, ok := unparen(c.Fun).(*ast.Ident); ok {
			if b, ok := t.w.info.Uses[id].(*types.Builtin); ok && b.Name() == "panic" {
				for _, a := range c.Args {
					t.expr(a)
				}
				t.panicExit(c.Pos())
				return
			}
		}
	}
	t.expr(x.X)
}

// panicExit: a panic leaves the function like a return (deferred calls run);
// directly inside a goroutine literal nothing can recover it (recover is
// refused everywhere): the process terminates.
func (t *tr) panicExit(p token.Pos) {
	if t.inGoLit {
		t.emit(&node{kind: nDiverge, pos: p, note: "panic in goroutine: process terminates"})
		t.env = nil
		return
	}
	if b := t.retBlock(); b != nil {
		// a panic does not contribute to the function's result summary
		t.exitTo(b, "panic", p)
	}
}

func (t *tr) declStmt(x *ast.DeclStmt) {
	gd, ok := x.Decl.(*ast.GenDecl)
	if !ok || gd.Tok != token.VAR {
		return
	}
	for _, s := range gd.Specs {
		vs := s.(*ast.ValueSpec)
		for _, v := range vs.Values {
			t.expr(v)
			t.valueUse(v)
		}
		if vs.Type != nil {
			if ty := t.typeOf(vs.Type); ty != nil && containsSync(ty, 0) {
				t.w.failClosed(vs.Pos(), "local variable of a type containing a sync primitive")
			}
		}
		var tags []tag
		if len(vs.Values) == len(vs.Names) {
			for _, v := range vs.Values {
				tags = append(tags, t.tagOf(v))
			}
		} else if len(vs.Values) == 1 {
			tags = t.multiTags(vs.Values[0], len(vs.Names))
		}
		for i, n := range vs.Names {
			v := t.varOf(n)
			if v == nil {
				continue
			}
			switch {
			case t.byValueTracked(v.Type()):
				t.setVar(v, t.fresh(n.Pos()))
			case i < len(tags):
				t.setVar(v, tags[i])
			default:
				t.setVar(v, tagS)
			}
		}
	}
}

// multiTags: tags of the n values produced by one expression.
func (t *tr) multiTags(e ast.Expr, n int) []tag {
	out := make([]tag, n)
	for i := range out {
		out[i] = tagS
	}
	switch x := unparen(e).(type) {
	case *ast.CallExpr:
		for i := range out {
			out[i] = t.callTag(x, i)
		}
	case *ast.IndexExpr:
		out[0] = t.tagOf(x.X)
	case *ast.TypeAssertExpr:
		out[0] = t.tagOf(x.X)
	}
	return out
}

func (t *tr) assign(x *ast.AssignStmt) {
	// right-hand sides first
	for _, r := range x.Rhs {
		t.expr(r)
		t.valueUse(r)
	}
	var tags []tag
	if len(x.Rhs) == len(x.Lhs) {
		for _, r := range x.Rhs {
			tags = append(tags, t.tagOf(r))
		}
	} else if len(x.Rhs) == 1 {
		tags = t.multiTags(x.Rhs[0], len(x.Lhs))
	}
	for i, l := range x.Lhs {
		tg := tagS
		if i < len(tags) {
			tg = tags[i]
		}
		if x.Tok != token.ASSIGN && x.Tok != token.DEFINE {
			tg = tagS // op= : numbers and strings only
		}
		l = unparen(l)
		if id, ok := l.(*ast.Ident); ok {
			if id.Name == "_" {
				continue
			}
			v := t.varOf(id)
			if v == nil {
				continue
			}
			if v.Parent() == t.w.pkg.Types.Scope() {
				t.publishTag(tg) // stored in a package-level variable
				continue
			}
			if t.byValueTracked(v.Type()) {
				if x.Tok == token.DEFINE && t.w.info.Defs[id] != nil {
					t.setVar(v, t.fresh(id.Pos()))
				}
				continue // a copy into the variable's own storage
			}
			t.setVar(v, tg)
			continue
		}
		t.write(l)
		if carriesRefs(t.typeOf(l), 0) {
			// storing a number, a string or a boolean publishes nothing
			t.store(t.lhsRootTag(l), tg)
			t.storeShared(t.lhsRootTag(l), tg, t.typeOf(l))
		}
	}
}

// carriesRefs: a value of type ty may contain references to other objects.
func carriesRefs(ty types.Type, depth int) bool {
	if ty == nil || depth > 6 {
		return true
	}
	switch u := ty.Underlying().(type) {
	case *types.Basic:
		return u.Kind() == types.UnsafePointer
	case *types.Struct:
		for i := 0; i < u.NumFields(); i++ {
			if carriesRefs(u.Field(i).Type(), depth+1) {
				return true
			}
		}
		return false
	case *types.Array:
		return carriesRefs(u.Elem(), depth+1)
	}
	return true
}

// lhsRootTag: tag of the object that owns the location designated by l.
func (t *tr) lhsRootTag(l ast.Expr) tag {
	switch x := unparen(l).(type) {
	case *ast.SelectorExpr:
		return t.tagOf(x.X)
	case *ast.IndexExpr:
		return t.tagOf(x.X)
	case *ast.StarExpr:
		return t.tagOf(x.X)
	case *ast.Ident:
		return t.tagOf(x)
	}
	return tagS
}

func (t *tr) returnStmt(x *ast.ReturnStmt) {
	for _, r := range x.Results {
		t.expr(r)
		t.valueUse(r)
	}
	if !t.probe {
		var tags []tag
		switch {
		case len(x.Results) == 0:
			for _, v := range t.results {
				if v == nil {
					tags = append(tags, tagS)
				} else {
					tags = append(tags, t.varTag(v))
				}
			}
		case len(x.Results) == t.nres:
			for _, r := range x.Results {
				tags = append(tags, t.tagOf(r))
			}
		case len(x.Results) == 1:
			tags = t.multiTags(x.Results[0], t.nres)
		}
		for i := 0; i < t.nres && i < len(tags); i++ {
			t.retTags[i] = append(t.retTags[i], t.summaryTag(tags[i]))
		}
	}
	if b := t.retBlock(); b != nil {
		t.exitTo(b, "return", x.Pos())
	}
}

func (t *tr) varTag(v *types.Var) tag {
	if t.isDBType(v.Type()) {
		return tagS
	}
	if tg, ok := t.env[v]; ok {
		return tg
	}
	return tagS
}

// summaryTag expresses a returned tag relative to the callee: region -1 is an
// object created by the callee, region k an alias of slot k-1.
func (t *tr) summaryTag(tg tag) tag {
	if tg.k != 'F' {
		return tg
	}
	if tg.region >= 1 && tg.region <= len(t.publishes) {
		return tg
	}
	return tag{k: 'F', region: -1}
}

func (t *tr) ifStmt(x *ast.IfStmt) {
	t.stmt(x.Init)
	t.expr(x.Cond)
	start := t.env.clone()
	th := t.capture(func() { t.stmts(x.Body.List) })
	envThen := t.env
	t.env = start
	el := t.capture(func() { t.stmt(x.Else) })
	t.env = joinEnvs(envThen, t.env)
	if isEmpty(th) && isEmpty(el) {
		return
	}
	t.emit(alt(th, el))
}

func (t *tr) forStmt(x *ast.ForStmt, label string) {
	t.stmt(x.Init)
	entry := t.env.clone()
	head := entry.clone()
	var result *node
	var after env
	for iter := 0; iter < 12; iter++ {
		t.env = head.clone()
		brk := &node{kind: nBlock, role: "break", label: label, pos: x.Pos()}
		cont := &node{kind: nBlock, role: "continue", label: label, pos: x.Pos()}
		cond := t.capture(func() { t.expr(x.Cond) })
		atCond := t.env.clone()
		t.push(brk)
		t.push(cont)
		body := t.capture(func() { t.stmts(x.Body.List) })
		t.pop()
		t.env = joinEnvs(append(t.blockEnvs[cont], t.env)...)
		cont.kids = []*node{body}
		post := t.capture(func() { t.stmt(x.Post) })
		t.pop()
		back := t.env
		var loopBody *node
		if x.Cond != nil {
			ex := &node{kind: nExit, target: brk, note: "loop condition false", pos: x.Pos()}
			loopBody = seq(cond, alt(ex, seq(cont, post)))
			after = joinEnvs(append(t.blockEnvs[brk], atCond)...)
		} else {
			loopBody = seq(cont, post)
			after = joinEnvs(t.blockEnvs[brk]...)
		}
		brk.kids = []*node{{kind: nLoop, kids: []*node{loopBody}, pos: x.Pos()}}
		result = brk
		newHead := joinEnvs(entry, back)
		if envEqual(newHead, head) || entry == nil {
			break
		}
		head = newHead
	}
	t.emit(result)
	t.env = after
}

func (t *tr) rangeStmt(x *ast.RangeStmt, label string) {
	t.expr(x.X)
	xt := t.tagOf(x.X)
	ch := isChan(t.typeOf(x.X))
	entry := t.env.clone()
	head := entry.clone()
	var result *node
	var after env
	for iter := 0; iter < 12; iter++ {
		t.env = head.clone()
		brk := &node{kind: nBlock, role: "break", label: label, pos: x.Pos()}
		cont := &node{kind: nBlock, role: "continue", label: label, pos: x.Pos()}
		atHead := t.env.clone()
		t.push(brk)
		t.push(cont)
		body := t.capture(func() {
			for _, kv := range []ast.Expr{x.Key, x.Value} {
				if kv == nil {
					continue
				}
				if id, ok := unparen(kv).(*ast.Ident); ok {
					if v := t.varOf(id); v != nil && id.Name != "_" {
						if t.byValueTracked(v.Type()) {
							t.setVar(v, t.fresh(id.Pos()))
						} else {
							t.setVar(v, xt)
						}
					}
					continue
				}
				t.write(kv)
				t.store(t.lhsRootTag(kv), xt)
				t.storeShared(t.lhsRootTag(kv), xt, t.typeOf(kv))
			}
			t.stmts(x.Body.List)
		})
		t.pop()
		t.pop()
		cont.kids = []*node{body}
		back := joinEnvs(append(t.blockEnvs[cont], t.env)...)
		ex := &node{kind: nExit, target: brk, note: "range exhausted", pos: x.Pos()}
		loopBody := alt(ex, cont)
		if ch {
			loopBody = seq(&node{kind: nWait, pos: x.Pos(), note: "range over channel"}, loopBody)
		}
		after = joinEnvs(append(t.blockEnvs[brk], atHead)...)
		brk.kids = []*node{{kind: nLoop, kids: []*node{loopBody}, pos: x.Pos()}}
		result = brk
		newHead := joinEnvs(entry, back)
		if envEqual(newHead, head) || entry == nil {
			break
		}
		head = newHead
	}
	t.emit(result)
	t.env = after
}

func (t *tr) switchStmt(x *ast.SwitchStmt, label string) {
	t.stmt(x.Init)
	t.expr(x.Tag)
	for _, c := range x.Body.List {
		for _, e := range c.(*ast.CaseClause).List {
			t.expr(e)
		}
	}
	t.clauses(x.Body.List, label, x.Pos(), nil)
}

func (t *tr) typeSwitchStmt(x *ast.TypeSwitchStmt, label string) {
	t.stmt(x.Init)
	var subject ast.Expr
	switch a := x.Assign.(type) {
	case *ast.ExprStmt:
		subject = a.X
	case *ast.AssignStmt:
		if len(a.Rhs) == 1 {
			subject = a.Rhs[0]
		}
	}
	tg := tagS
	if ta, ok := unparen(subject).(*ast.TypeAssertExpr); ok {
		t.expr(ta.X)
		tg = t.tagOf(ta.X)
	}
	t.clauses(x.Body.List, label, x.Pos(), func(c *ast.CaseClause) {
		if v, ok := t.w.info.Implicits[c].(*types.Var); ok {
			t.setVar(v, tg)
		}
	})
}

// clauses translates the bodies of a switch as alternatives inside a block
// that `break` leaves.
func (t *tr) clauses(list []ast.Stmt, label string, p token.Pos, pre func(*ast.CaseClause)) {
	blk := &node{kind: nBlock, role: "switch", label: label, pos: p}
	start := t.env.clone()
	t.push(blk)
	var alts []*node
	var ends []env
	hasDefault := false
	bodies := make([]*node, len(list))
	falls := make([]bool, len(list))
	for i, s := range list {
		c := s.(*ast.CaseClause)
		if c.List == nil {
			hasDefault = true
		}
		t.env = start.clone()
		body := c.Body
		if n := len(body); n > 0 {
			if b, ok := body[n-1].(*ast.BranchStmt); ok && b.Tok == token.FALLTHROUGH {
				falls[i] = true
				body = body[:n-1]
			}
		}
		bodies[i] = t.capture(func() {
			if pre != nil {
				pre(c)
			}
			t.stmts(body)
		})
		ends = append(ends, t.env)
		alts = append(alts, bodies[i])
	}
	for i := range list {
		if falls[i] && (!isEmpty(bodies[i]) || i+1 >= len(list) || !isEmpty(bodies[i+1])) {
			t.w.failClosed(list[i].Pos(), "fallthrough between switch cases that have events")
		}
	}
	t.pop()
	if !hasDefault {
		alts = append(alts, skip())
		ends = append(ends, start)
	}
	t.env = joinEnvs(append(ends, t.blockEnvs[blk]...)...)
	all := true
	for _, a := range alts {
		if !isEmpty(a) {
			all = false
		}
	}
	if all {
		return
	}
	blk.kids = []*node{alt(alts...)}
	t.emit(blk)
}

func (t *tr) selectStmt(x *ast.SelectStmt, label string) {
	hasDefault := false
	for _, s := range x.Body.List {
		if s.(*ast.CommClause).Comm == nil {
			hasDefault = true
		}
	}
	if !hasDefault {
		t.emit(&node{kind: nWait, pos: x.Pos(), note: "select"})
	} else {
		t.w.note("%s: select with a default clause does not block: no SWait", t.w.pos(x.Pos()))
	}
	blk := &node{kind: nBlock, role: "switch", label: label, pos: x.Pos()}
	start := t.env.clone()
	t.push(blk)
	var alts []*node
	var ends []env
	for _, s := range x.Body.List {
		c := s.(*ast.CommClause)
		t.env = start.clone()
		alts = append(alts, t.capture(func() {
			t.inComm = true
			t.stmt(c.Comm)
			t.inComm = false
			t.stmts(c.Body)
		}))
		ends = append(ends, t.env)
	}
	t.pop()
	t.env = joinEnvs(append(ends, t.blockEnvs[blk]...)...)
	if len(alts) == 0 {
		t.env = nil // select {} blocks forever
		t.emit(&node{kind: nDiverge, pos: x.Pos(), note: "select {}"})
		return
	}
	blk.kids = []*node{alt(alts...)}
	t.emit(blk)
}

func (t *tr) branch(x *ast.BranchStmt) {
	label := ""
	if x.Label != nil {
		label = x.Label.Name
	}
	switch x.Tok {
	case token.BREAK:
		b := t.findBlock(func(b *node) bool {
			return (b.role == "break" || b.role == "switch") && (label == "" || b.label == label)
		})
		if b == nil {
			t.w.failClosed(x.Pos(), "break without target")
			return
		}
		t.exitTo(b, "break", x.Pos())
	case token.CONTINUE:
		b := t.findBlock(func(b *node) bool { return b.role == "continue" && (label == "" || b.label == label) })
		if b == nil {
			t.w.failClosed(x.Pos(), "continue without target")
			return
		}
		t.exitTo(b, "continue", x.Pos())
	case token.GOTO:
		idx := -1
		for i, s := range t.top {
			if ls, ok := s.(*ast.LabeledStmt); ok && ls.Label.Name == label {
				idx = i
			}
		}
		if idx < 0 || t.top[idx].Pos() < x.Pos() || t.probe {
			t.w.failClosed(x.Pos(), "goto %s: only a forward goto to a label of the function's top-level statement list is supported", label)
			return
		}
		t.gotoPos = x.Pos()
		// a copy of the statements from the label to the end of the function
		t.stmts(t.top[idx:])
		if b := t.findBlock(func(b *node) bool { return b.role == "ret" }); b != nil && t.env != nil {
			t.exitTo(b, "end of function (after goto "+label+")", x.Pos())
		}
	case token.FALLTHROUGH:
		t.w.failClosed(x.Pos(), "fallthrough that is not the last statement of a case")
	}
}
