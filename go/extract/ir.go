package main

import (
	"fmt"
	"go/ast"
	"go/token"
	"go/types"
	"strings"
)

// ---- lock classes --------------------------------------------------------

type lclass struct {
	kind int // 0 handle (DB.l), 1 store, 2 map, 3 schemas (DB.sl)
	inst int // 0 cache, 1 asyncw (kind 1 and 2 only)
}

var lHandle = lclass{0, 0}
var lSchemas = lclass{3, 0}

// dbLockClass: the lock class of a mutex field of DB, by field name.
func dbLockClass(field string) (lclass, bool) {
	switch field {
	case "l":
		return lHandle, true
	case "sl":
		return lSchemas, true
	}
	return lclass{}, false
}

func (c lclass) rank() int { return c.kind }

func instCoq(i int) string {
	if i == 0 {
		return "ICache"
	}
	return "IAsync"
}

func instName(i int) string {
	if i == 0 {
		return "cache"
	}
	return "asyncw"
}

func (c lclass) coq() string {
	switch c.kind {
	case 0:
		return "LHandle"
	case 1:
		return "LStore " + instCoq(c.inst)
	case 3:
		return "LSchemas"
	default:
		return "LMap " + instCoq(c.inst)
	}
}

// coqArg renders the class as an argument (parenthesised when applied).
func (c lclass) coqArg() string {
	if c.kind == 0 || c.kind == 3 {
		return c.coq()
	}
	return "(" + c.coq() + ")"
}

func (c lclass) name() string {
	switch c.kind {
	case 0:
		return "DB.l"
	case 1:
		return "objectStore@" + instName(c.inst)
	case 3:
		return "DB.sl"
	default:
		return "objectMap@" + instName(c.inst)
	}
}

// ---- skeleton IR ---------------------------------------------------------

type nkind int

const (
	nSkip nkind = iota
	nAcq
	nRel
	nCall
	nGo
	nHook
	nWait
	nAcc
	nSeq
	nAlt
	nLoop
	nBlock
	nExit
	nDiverge // process termination (panic in a goroutine): emitted as SLoop SSkip
)

type node struct {
	kind   nkind
	class  lclass
	mode   byte // 'R' | 'W'
	callee *spec
	loc    string
	write  bool
	local  bool
	kids   []*node
	target *node  // nExit: the block that is left
	role   string // nBlock: ret | break | continue | switch
	label  string // nBlock: Go label of the loop/switch, if any
	pos    token.Pos
	note   string
}

func skip() *node { return &node{kind: nSkip} }

// seq builds a flattened sequence without skips.
func seq(ns ...*node) *node {
	var out []*node
	var add func(n *node)
	add = func(n *node) {
		if n == nil || n.kind == nSkip {
			return
		}
		if n.kind == nSeq {
			for _, k := range n.kids {
				add(k)
			}
			return
		}
		out = append(out, n)
	}
	for _, n := range ns {
		add(n)
	}
	switch len(out) {
	case 0:
		return skip()
	case 1:
		return out[0]
	}
	return &node{kind: nSeq, kids: out}
}

func alt(ns ...*node) *node {
	if len(ns) == 0 {
		return skip()
	}
	if len(ns) == 1 {
		return ns[0]
	}
	return &node{kind: nAlt, kids: ns}
}

// isEmpty: the node produces no event and completes normally.
func isEmpty(n *node) bool {
	if n == nil {
		return true
	}
	switch n.kind {
	case nSkip:
		return true
	case nSeq, nAlt:
		for _, k := range n.kids {
			if !isEmpty(k) {
				return false
			}
		}
		return true
	}
	return false
}

// walk visits every node.
func (n *node) walk(f func(*node)) {
	if n == nil {
		return
	}
	f(n)
	for _, k := range n.kids {
		k.walk(f)
	}
}

// ---- ownership tags ------------------------------------------------------

// tag of an expression of tracked type: S shared, F fresh (with an alias
// region), C below db.cache, A below db.asyncw.
type tag struct {
	k      byte
	region int
}

var tagS = tag{k: 'S'}

func joinTag(a, b tag) tag {
	if a == b {
		return a
	}
	return tagS
}

type env map[*types.Var]tag

func (e env) clone() env {
	c := make(env, len(e))
	for k, v := range e {
		c[k] = v
	}
	return c
}

func joinEnv(a, b env) env {
	c := env{}
	for k, va := range a {
		if vb, ok := b[k]; ok && va == vb && va.k != 'S' {
			c[k] = va
		}
	}
	return c
}

func envEqual(a, b env) bool {
	if len(a) != len(b) {
		return false
	}
	for k, v := range a {
		if w, ok := b[k]; !ok || w != v {
			return false
		}
	}
	return true
}

// ---- specialisations -----------------------------------------------------

type spec struct {
	key    string
	fn     *types.Func
	lit    *ast.FuncLit
	parent *spec // enclosing specialisation of a literal
	litEnv env   // environment captured at the go statement
	vec    []byte
	name   string
	short  string

	state   int // 0 new, 1 in progress, 2 done
	body    *node
	entry   bool
	spawn   bool
	prim    bool
	deflt   bool
	trivial bool
	hasLock bool // transitively contains a lock op, a spawn or a wait

	retTag     []tag  // per result; region -1 = fresh object created by the callee, k>0 = alias of slot k-1
	publishes  []bool // per slot
	assumedPub []bool // summary assumed for direct self calls while translating
	selfCalled bool
	nslots     int
	pos        token.Pos

	index   int
	callees []*spec
}

func vecString(v []byte) string {
	plain := true
	for _, b := range v {
		if b != 'S' && b != '-' {
			plain = false
		}
	}
	if plain {
		return ""
	}
	parts := make([]string, len(v))
	for i, b := range v {
		parts[i] = string(b)
	}
	return "[" + strings.Join(parts, ",") + "]"
}

// goName renders a function like types.Func.FullName without the package path.
func goName(fn *types.Func) string {
	sig := fn.Type().(*types.Signature)
	if r := sig.Recv(); r != nil {
		t := r.Type()
		star := ""
		if p, ok := t.(*types.Pointer); ok {
			t = p.Elem()
			star = "*"
		}
		n := "?"
		if nt, ok := t.(*types.Named); ok {
			n = nt.Obj().Name()
		}
		if star != "" {
			return fmt.Sprintf("(*%s).%s", n, fn.Name())
		}
		return fmt.Sprintf("%s.%s", n, fn.Name())
	}
	return fn.Name()
}
