package main

import (
	"fmt"
	"sort"
	"strings"
)

func isAtom(k nkind) bool {
	switch k {
	case nAcq, nRel, nGo, nHook, nWait, nAcc, nDiverge:
		return true
	}
	return false
}

// postProcess prunes calls to trivial functions, elides lock-free self
// recursion, simplifies blocks, detects call cycles and numbers the functions
// callees first. It returns the functions in emission order and the cycles.
func (w *world) postProcess() (order []*spec, cycles []string) {
	specs := w.specOrder
	// 1. triviality (least fixpoint of "has an event")
	nontriv := map[*spec]bool{}
	for _, sp := range specs {
		sp.body.walk(func(n *node) {
			if isAtom(n.kind) {
				nontriv[sp] = true
			}
		})
	}
	for changed := true; changed; {
		changed = false
		for _, sp := range specs {
			if nontriv[sp] {
				continue
			}
			sp.body.walk(func(n *node) {
				if n.kind == nCall && nontriv[n.callee] && !nontriv[sp] {
					nontriv[sp] = true
					changed = true
				}
			})
		}
	}
	for _, sp := range specs {
		sp.trivial = !nontriv[sp]
	}
	// 2. lock relevance (transitively: lock op, spawn, wait)
	for _, sp := range specs {
		sp.body.walk(func(n *node) {
			switch n.kind {
			case nAcq, nRel, nGo, nWait, nDiverge:
				sp.hasLock = true
			}
		})
	}
	for changed := true; changed; {
		changed = false
		for _, sp := range specs {
			if sp.hasLock {
				continue
			}
			sp.body.walk(func(n *node) {
				if n.kind == nCall && n.callee.hasLock && !sp.hasLock {
					sp.hasLock = true
					changed = true
				}
			})
		}
	}
	// 3. rewrite bodies
	for _, sp := range specs {
		elided := false
		sp.body = w.rewrite(sp.body, func(n *node) *node {
			if n.kind != nCall {
				return n
			}
			if n.callee.trivial {
				return skip()
			}
			if n.callee == sp && !sp.hasLock {
				elided = true
				return skip()
			}
			return n
		})
		if elided {
			w.note("%s: recursion elided (direct self call in lock-free code: the held set is constant)", sp.name)
		}
		sp.body = simplifyBlocks(sp.body)
	}
	// 4. call graph, cycles, numbering (DFS post-order: callees first)
	for _, sp := range specs {
		seen := map[*spec]bool{}
		sp.callees = nil
		sp.body.walk(func(n *node) {
			if n.kind == nCall && !seen[n.callee] {
				seen[n.callee] = true
				sp.callees = append(sp.callees, n.callee)
			}
		})
	}
	state := map[*spec]int{}
	var stack []*spec
	cyc := map[string]bool{}
	var dfs func(sp *spec)
	dfs = func(sp *spec) {
		state[sp] = 1
		stack = append(stack, sp)
		for _, c := range sp.callees {
			switch state[c] {
			case 0:
				dfs(c)
			case 1:
				// back edge: a call cycle
				var names []string
				start := 0
				for i, s := range stack {
					if s == c {
						start = i
					}
				}
				for _, s := range stack[start:] {
					names = append(names, s.short)
				}
				names = append(names, c.short)
				cyc[strings.Join(names, "->")] = true
			}
		}
		stack = stack[:len(stack)-1]
		state[sp] = 2
		sp.index = len(order)
		order = append(order, sp)
	}
	for _, sp := range specs {
		if state[sp] == 0 {
			dfs(sp)
		}
	}
	for c := range cyc {
		cycles = append(cycles, c)
	}
	sort.Strings(cycles)
	return order, cycles
}

// rewrite rebuilds a tree bottom-up, applying f to every node. Exit targets
// are remapped to the rebuilt blocks.
func (w *world) rewrite(root *node, f func(*node) *node) *node {
	remap := map[*node]*node{}
	var exits []*node
	var rec func(n *node) *node
	rec = func(n *node) *node {
		if n == nil {
			return nil
		}
		c := *n
		c.kids = nil
		if n.kind == nBlock {
			remap[n] = &c
		}
		for _, k := range n.kids {
			c.kids = append(c.kids, rec(k))
		}
		var out *node
		switch c.kind {
		case nSeq:
			out = seq(c.kids...)
		case nAlt:
			all := true
			for _, k := range c.kids {
				if !isEmpty(k) {
					all = false
				}
			}
			if all {
				out = skip()
			} else {
				out = &c
			}
		case nExit:
			exits = append(exits, &c)
			out = &c
		default:
			out = &c
		}
		return f(out)
	}
	r := rec(root)
	for _, e := range exits {
		if nb, ok := remap[e.target]; ok {
			e.target = nb
		}
	}
	return r
}

// simplifyBlocks removes the blocks that no exit targets, the exits in tail
// position of their own block, and event-free closed control flow.
func simplifyBlocks(root *node) *node {
	for pass := 0; pass < 4; pass++ {
		refs := map[*node]int{}
		root.walk(func(n *node) {
			if n.kind == nExit {
				refs[n.target]++
			}
		})
		var rec func(n *node) *node
		rec = func(n *node) *node {
			for i, k := range n.kids {
				n.kids[i] = rec(k)
			}
			switch n.kind {
			case nSeq:
				return seq(n.kids...)
			case nAlt:
				all := true
				for _, k := range n.kids {
					if !isEmpty(k) {
						all = false
					}
				}
				if all {
					return skip()
				}
			case nLoop:
				n.kids[0] = seq(n.kids[0])
			case nBlock:
				b := seq(n.kids[0])
				// tail exit to this very block
				if b.kind == nExit && b.target == n {
					return skip()
				}
				if b.kind == nSeq {
					if last := b.kids[len(b.kids)-1]; last.kind == nExit && last.target == n {
						refs[n]--
						b = seq(b.kids[:len(b.kids)-1]...)
					}
				}
				n.kids[0] = b
				if refs[n] <= 0 {
					return b
				}
				if closedAndSilent(n) {
					return skip()
				}
			}
			return n
		}
		root = rec(root)
	}
	return root
}

// closedAndSilent: no event inside, every exit inside targets a block inside,
// and the block itself is left by some exit (so it can complete).
func closedAndSilent(b *node) bool {
	inside := map[*node]bool{}
	silent := true
	self := false
	b.walk(func(n *node) {
		if n.kind == nBlock {
			inside[n] = true
		}
		if isAtom(n.kind) || n.kind == nCall {
			silent = false
		}
	})
	if !silent {
		return false
	}
	ok := true
	b.walk(func(n *node) {
		if n.kind == nExit {
			if !inside[n.target] {
				ok = false
			}
			if n.target == b {
				self = true
			}
		}
	})
	return ok && self
}

var _ = fmt.Sprintf
