#!/bin/bash
# setup.sh: build the framework from files on disk only (offline).
set -e
cd /verif
export GOFLAGS=-mod=mod GOPROXY=off GOSUMDB=off GOTOOLCHAIN=local
(cd coq && coq_makefile -f _CoqProject -o Makefile >/dev/null)
./build_model.sh
mkdir -p .cache evidence replay
python3 - <<'PY'
import sys
sys.path.insert(0, '/verif')
import importlib.machinery, importlib.util
loader = importlib.machinery.SourceFileLoader('check', '/verif/check')
spec = importlib.util.spec_from_loader('check', loader)
m = importlib.util.module_from_spec(spec); loader.exec_module(m)
exe, log = m.build_harness()
print('harness:', exe)
sys.exit(0 if exe else 1)
PY
