(* driver.ml: replays a harness trace on the EXTRACTED Coq model (model.ml) and prints the
   model's observations in the harness's own format (r / s lines), so that the check is a
   line-by-line comparison.  Reads: hist / cfg / fields / op / o / end lines; ignores the
   implementation's r, s, !, # lines.  Numbers cross the boundary through Zarith. *)

module ZZ = Z
open Model

(* ---------------------------------------------------------------- numbers *)
let rec pos_of_zz (z : ZZ.t) : positive =
  if ZZ.equal z ZZ.one then XH
  else let r = pos_of_zz (ZZ.shift_right z 1) in if ZZ.testbit z 0 then XI r else XO r
let rec zz_of_pos = function
  | XH -> ZZ.one
  | XO p -> ZZ.shift_left (zz_of_pos p) 1
  | XI p -> ZZ.succ (ZZ.shift_left (zz_of_pos p) 1)
let z_of_zz (z : ZZ.t) : Model.z =
  if ZZ.sign z = 0 then Z0 else if ZZ.sign z > 0 then Zpos (pos_of_zz z) else Zneg (pos_of_zz (ZZ.neg z))
let zz_of_z = function Z0 -> ZZ.zero | Zpos p -> zz_of_pos p | Zneg p -> ZZ.neg (zz_of_pos p)
let n_of_zz (z : ZZ.t) : Model.n = if ZZ.sign z = 0 then N0 else Npos (pos_of_zz z)
let zz_of_n = function N0 -> ZZ.zero | Npos p -> zz_of_pos p
let n_of_int i = n_of_zz (ZZ.of_int i)
let int_of_n n = ZZ.to_int (zz_of_n n)
let z_of_int i = z_of_zz (ZZ.of_int i)
let z_of_string s = z_of_zz (ZZ.of_string s)
let string_of_z z = ZZ.to_string (zz_of_z z)
let string_of_n n = ZZ.to_string (zz_of_n n)
let rec nat_of_int i = if i <= 0 then O else S (nat_of_int (i - 1))
let rec int_of_nat = function O -> 0 | S n -> 1 + int_of_nat n

(* ---------------------------------------------------------------- strings *)
let bytes_of_hex (h : string) : n list =
  let l = String.length h / 2 in
  List.init l (fun i -> n_of_int (int_of_string ("0x" ^ String.sub h (2 * i) 2)))
let hex_of_bytes (b : n list) : string =
  String.concat "" (List.map (fun x -> Printf.sprintf "%02x" (int_of_n x)) b)
let bytes_of_string (s : string) : n list = List.init (String.length s) (fun i -> n_of_int (Char.code s.[i]))
let string_of_bytes (b : n list) : string = String.concat "" (List.map (fun x -> String.make 1 (Char.chr (int_of_n x))) b)

let nan_code = ZZ.of_string "9221120237041090560"

let key_of_tok (t : string) : key =
  let rest = String.sub t 1 (String.length t - 1) in
  match t.[0] with
  | 'i' -> KInt (z_of_string rest)
  | 'u' -> KUint (z_of_string rest)
  | 'f' -> if rest = "nan" then KFlt (z_of_zz nan_code) else KFlt (z_of_string rest)
  | 's' -> KStr (bytes_of_hex rest)
  | _ -> failwith ("bad key token " ^ t)

let tok_of_key = function
  | KInt z -> "i" ^ string_of_z z
  | KUint z -> "u" ^ string_of_z z
  | KFlt z -> if ZZ.equal (zz_of_z z) nan_code then "fnan" else "f" ^ string_of_z z
  | KStr s -> "s" ^ hex_of_bytes s

(* record token R<u>|k0,...|rest *)
let parse_rec (t : string) : int * obj =
  match String.split_on_char '|' t with
  | [u; ks; r] ->
      let u = int_of_string (String.sub u 1 (String.length u - 1)) in
      let keys = List.map key_of_tok (String.split_on_char ',' ks) in
      (u, { o_keys = keys; o_rest = n_of_int (int_of_string r) })
  | _ -> failwith ("bad record " ^ t)

let rec_tok (u : n) (o : obj) : string =
  Printf.sprintf "R%s|%s|%s" (string_of_n u) (String.concat "," (List.map tok_of_key o.o_keys)) (string_of_n o.o_rest)

let cls = function
  | ENotFound -> "notfound" | EUnique -> "unique" | EInvalid -> "invalid" | EWrongType -> "wrongtype"
  | ECasting -> "casting" | EUnknownField -> "unknownfield" | EUnknownOp -> "unknownop" | EUnknownKey -> "unknownkey"
  | EBadPattern -> "badpattern" | ENoObject -> "noobject" | EUnexpectedN -> "unexpectedn" | ECorrupted -> "corrupted"
  | EInconsistent -> "inconsistent" | EStructure -> "structure" | EFieldDesc -> "fielddesc" | EExtension -> "extension"
  | EStorage -> "storage" | EJson -> "json" | ENotIndexed -> "notindexed" | EBadSchema -> "badschema" | EOther -> "other"

let cls_res = function Ok _ -> "ok" | Err e -> cls e | Panic -> "panic"
(* enumerating reads (All, Collect, One, scans) stop at the first unreadable object, which one
   depends on map order: their read errors are compared as one class *)
let rd = function "notfound" | "json" | "other" -> "readerr" | s -> s
let cls_opt = function None -> "ok" | Some e -> cls e

(* ---------------------------------------------------------------- configuration *)
type cfg = { mutable cache : bool; mutable async : bool; mutable thr : int; mutable tmo : int;
             mutable compress : bool; mutable ext : n list; mutable lower : bool;
             mutable cons : string array }

let kinds = "iiuuffssiisfsisuii"
let nf = String.length kinds

let kind_of_char = function 'i' -> KdInt | 'u' -> KdUint | 'f' -> KdFlt | _ -> KdStr
let cast_name = function KdInt -> "int64" | KdUint -> "uint64" | KdFlt -> "float64" | KdStr -> "string"

let fds_of (c : cfg) : fdesc list =
  List.init nf (fun i ->
      let f = c.cons.(i) in
      { fd_kind = kind_of_char kinds.[i]; fd_index = f.[0] = '1'; fd_unique = f.[1] = '1';
        fd_upper = f.[2] = '1'; fd_lower = f.[3] = '1' })

let settings_of (c : cfg) : settings =
  { st_cache = c.cache;
    st_async = (if c.async then Some (z_of_int c.thr, z_of_int c.tmo) else None);
    st_compress = c.compress; st_ext = c.ext }

let apply_kv (c : cfg) (toks : string list) =
  List.iter (fun t ->
      match String.index_opt t '=' with
      | None -> ()
      | Some i ->
          let k = String.sub t 0 i and v = String.sub t (i + 1) (String.length t - i - 1) in
          (match k with
           | "cache" -> c.cache <- v = "1"
           | "async" -> c.async <- v = "1"
           | "compress" -> c.compress <- v = "1"
           | "lower" -> c.lower <- v = "1"
           | "thr" -> c.thr <- int_of_string v
           | "to" -> c.tmo <- int_of_string v
           | "ext" -> c.ext <- bytes_of_hex (String.sub v 1 (String.length v - 1))
           | "cons" ->
               (match String.split_on_char ':' v with
                | [i; fl] -> c.cons.(int_of_string i) <- fl
                | _ -> ())
           | _ -> ()))
    toks

let copy_cfg c = { c with cons = Array.copy c.cons }

(* ---------------------------------------------------------------- printing of state *)
let b2s b = if b then "1" else "0"
let out = Buffer.create (1 lsl 20)
let emit s = Buffer.add_string out s; Buffer.add_char out '\n'

let sort_by f l = List.sort (fun a b -> compare (f a) (f b)) l

let print_index_lines (prefix_ids : string) (prefix_ix : string) (ix : oindex) (fds : fdesc list) =
  let ids = sort_by (fun (oid, _) -> zz_of_n oid) ix.oi_ids in
  let ids = List.sort (fun (a, _) (b, _) -> ZZ.compare (zz_of_n a) (zz_of_n b)) ids in
  emit (Printf.sprintf "s %s %s" prefix_ids
          (String.concat " " (List.map (fun (oid, u) -> string_of_n oid ^ ":" ^ string_of_n u) ids)));
  List.iteri (fun i fxo ->
      match fxo with
      | None -> ()
      | Some l ->
          let fd = List.nth fds i in
          emit (Printf.sprintf "s %s %d %s %s" prefix_ix i (cast_name fd.fd_kind)
                  (String.concat " " (List.map (fun (k, oid) -> tok_of_key k ^ ":" ^ string_of_n oid) l))))
    ix.oi_fx

let dir_name (c : cfg) = string_of_bytes (Model.dir_name c.lower (bytes_of_string "shape.Rec"))

let print_fs (c : cfg) (d : disk) =
  emit "r ok";
  emit ("s root" ^ (if d.d_dir then " " ^ dir_name c else ""));
  if not d.d_dir then emit "s dir -"
  else begin
    let files = List.map (fun (f, ct) -> ("U" ^ string_of_n f.fn_uuid ^ string_of_bytes f.fn_suffix, Some (f, ct))) d.d_files in
    let others = List.map (fun nm -> ("x" ^ hex_of_bytes nm, None)) d.d_other in
    let sch = match d.d_schema with None -> [] | Some _ -> [("xschema", None)] in
    ignore sch;
    let all = files @ others @ (match d.d_schema with None -> [] | Some _ -> [("x" ^ hex_of_bytes (bytes_of_string "schema.json"), None)]) in
    let all = List.sort (fun (a, _) (b, _) -> compare a b) all in
    emit ("s dir " ^ String.concat " " (List.map fst all));
    List.iter (fun (nm, fo) ->
        match fo with
        | Some (f, COk o) -> emit (Printf.sprintf "s file %s %s" nm (rec_tok f.fn_uuid o))
        | Some (_, CBad) | Some (_, CDir) -> emit (Printf.sprintf "s file %s BAD" nm)
        | None -> ())
      all;
    match d.d_schema with
    | None -> emit "s schema -"
    | Some SBad -> emit "s schema BAD"
    | Some (SOk sf) ->
        let st = sf.sf_set in
        let async = match st.st_async with
          | None -> "none"
          | Some (thr, tmo) -> Printf.sprintf "1,%s,%s" (string_of_z thr) (string_of_z tmo) in
        let cons = String.concat "," (List.map (fun fd -> b2s fd.fd_index ^ b2s fd.fd_unique ^ b2s fd.fd_upper ^ b2s fd.fd_lower) sf.sf_fields) in
        emit (Printf.sprintf "s schema ext=s%s compress=%s cache=%s async=%s cons=%s extra=ok"
                (hex_of_bytes st.st_ext) (b2s st.st_compress) (b2s st.st_cache) async cons);
        print_index_lines "sids" "six" sf.sf_idx sf.sf_fields
  end

(* ---------------------------------------------------------------- ops *)
let sop_of = function
  | "eq" -> OpEq | "ne" -> OpNe | "lt" -> OpLt | "le" -> OpLe | "gt" -> OpGt | "ge" -> OpGe | "rx" -> OpRx
  | _ -> OpBad

let fld_of (s : string) : nat option =
  let i = int_of_string s in
  if i >= 0 && i < nf then Some (nat_of_int i) else None

type oracle = { mutable fresh : int list; mutable order : int list }

let member_of (orc : oracle) (t : string) : member =
  if t = "OTHER" then MOther
  else begin
    let (u, o) = parse_rec t in
    let fr = if u = 0 then (match orc.fresh with x :: r -> orc.fresh <- r; x | [] -> 0) else 0 in
    MRec (n_of_int u, n_of_int fr, o)
  end

let live_shape = ref (n_of_int 1)

let print_objs (mode : int) (l : (n * obj) list) =
  let toks = List.map (fun (u, o) -> (int_of_n u, rec_tok u o)) l in
  let toks = if mode = 1 then List.stable_sort (fun (a, _) (b, _) -> compare a b) toks else toks in
  let body = if mode = 2 then "" else String.concat " " (List.map snd toks) in
  emit (Printf.sprintf "r ok %d %s" (List.length l) body)

(* the state of the history being replayed (module level so that the linearizability mode can go on
   from where a sequential prefix stopped) *)
let g_cfg = ref { cache = false; async = false; thr = 0; tmo = 0; compress = false; ext = []; lower = false;
                  cons = Array.make nf "0000" }
let st = ref init_state
let cases : (n list * (n list * n list)) list ref = ref []
let rxs : (n list * n list list option) list ref = ref []
let hooks () = mk_hooks !cases !rxs

let run_history (lines : string list) =
  let c = { cache = false; async = false; thr = 0; tmo = 0; compress = false; ext = []; lower = false;
            cons = Array.make nf "0000" } in
  g_cfg := c;
  st := init_state;
  live_shape := n_of_int 1;
  cases := []; rxs := [];
  (* group: an op line followed by its o lines *)
  let rec go (ls : string list) =
    match ls with
    | [] -> ()
    | l :: rest ->
        let toks = List.filter (fun s -> s <> "") (String.split_on_char ' ' l) in
        (match toks with
         | "cfg" :: kv -> apply_kv c kv; emit l; go rest
         | "fields" :: fl -> List.iteri (fun i f -> c.cons.(i) <- f) fl; emit l; go rest
         | "hist" :: _ | "end" :: _ -> emit l; go rest
         | "op" :: t ->
             (* collect following oracle lines *)
             let orc = { fresh = []; order = [] } in
             let rec take (ls : string list) =
               match ls with
               | l2 :: r2 when String.length l2 >= 2 && (l2.[0] = 'o' && l2.[1] = ' ' && not (String.length l2 > 2 && l2.[2] = 'p')) ->
                   let tk = List.filter (fun s -> s <> "") (String.split_on_char ' ' l2) in
                   (match tk with
                    | "o" :: "fresh" :: xs -> orc.fresh <- orc.fresh @ List.map int_of_string xs
                    | "o" :: "order" :: xs -> orc.order <- List.map int_of_string xs
                    | [ "o"; "case"; s; u; lo ] ->
                        let b x = bytes_of_hex (String.sub x 1 (String.length x - 1)) in
                        cases := (b s, (b u, b lo)) :: !cases
                    | "o" :: "rx" :: p :: "bad" :: _ ->
                        rxs := (bytes_of_hex (String.sub p 1 (String.length p - 1)), None) :: !rxs
                    | "o" :: "rx" :: p :: "ok" :: ms ->
                        let b x = bytes_of_hex (String.sub x 1 (String.length x - 1)) in
                        rxs := (b p, Some (List.map b ms)) :: !rxs
                    | _ -> ());
                   emit l2;
                   take r2
               | l2 :: r2 when String.length l2 >= 1 && (l2.[0] = 'r' || l2.[0] = 's' || l2.[0] = '!' || l2.[0] = '#') -> take r2
               | _ -> ls
             in
             emit l;
             let rest' = take rest in
             exec_op t orc;
             go rest'
         | _ -> go rest)
  and exec_op (t : string list) (orc : oracle) =
    let do_step (o : op) = let (s', r) = step (hooks ()) !live_shape !st o in st := s'; r in
    let unit_line r = match r with
      | RUnit x -> emit ("r " ^ cls_res x)
      | RPanic -> emit "r panic"
      | RCrash -> emit "r crash"
      | _ -> emit "r ?" in
    match t with
    | "create" :: kv ->
        let c2 = copy_cfg c in
        apply_kv c2 kv;
        (match do_step (OCreate (settings_of c2, fds_of c2)) with
         | RUnit (Ok _) -> c.cache <- c2.cache; c.async <- c2.async; c.thr <- c2.thr; c.tmo <- c2.tmo; emit "r ok"
         | r -> unit_line r)
    | [ "ins"; r ] ->
        let (u, o) = parse_rec r in
        let fr = match orc.fresh with x :: _ -> x | [] -> 0 in
        unit_line (do_step (OInsert (n_of_int u, n_of_int fr, o)))
    | "many" :: ms ->
        let ms = List.map (member_of orc) ms in
        (match do_step (OMany ms) with
         | RMany (r, n) -> emit (Printf.sprintf "r %s %s" (cls_res r) (string_of_z n))
         | RPanic -> emit "r panic" | RCrash -> emit "r crash" | _ -> emit "r ?")
    | "bulk" :: cs :: ms ->
        let ms = List.map (member_of orc) ms in
        (match do_step (OBulk (z_of_int (int_of_string cs), ms)) with
         | RMany (r, n) -> emit (Printf.sprintf "r %s %s" (cls_res r) (string_of_z n))
         | RPanic -> emit "r panic" | RCrash -> emit "r crash" | _ -> emit "r ?")
    | [ "del"; u ] -> unit_line (do_step (ODelete (n_of_int (int_of_string u))))
    | [ "delall" ] -> unit_line (do_step (ODeleteAll (List.map n_of_int orc.order)))
    | [ ("get" | "getu"); u ] ->
        (match do_step (OGet (n_of_int (int_of_string u))) with
         | RObj (Ok (u, o)) -> emit ("r ok " ^ rec_tok u o)
         | RObj r -> emit ("r " ^ cls_res r)
         | RPanic -> emit "r panic" | RCrash -> emit "r crash" | _ -> emit "r ?")
    | [ "exist"; u ] ->
        (match do_step (OExist (n_of_int (int_of_string u))) with
         | RBool (Ok b) -> emit ("r ok " ^ b2s b)
         | RBool r -> emit ("r " ^ cls_res r ^ " 0")
         | RPanic -> emit "r panic" | RCrash -> emit "r crash" | _ -> emit "r ?")
    | [ "count" ] ->
        (match do_step OCount with
         | RNum (Ok n) -> emit ("r ok " ^ string_of_z n)
         | RNum r -> emit ("r " ^ cls_res r ^ " 0")
         | RPanic -> emit "r panic" | RCrash -> emit "r crash" | _ -> emit "r ?")
    | "all" :: _ ->
        (match do_step OAll with
         | RObjs (Ok l) -> print_objs 1 l
         | RObjs r -> emit ("r " ^ rd (cls_res r))
         | RPanic -> emit "r panic" | RCrash -> emit "r crash" | _ -> emit "r ?")
    | "search" :: sid :: fld :: o :: probe :: _ ->
        (match do_step (OSearch (n_of_int (int_of_string sid), fld_of fld, sop_of o, key_of_tok probe)) with
         | RSearch (Some e, _) -> emit (Printf.sprintf "r %s 0" (rd (cls e)))
         | RSearch (None, n) -> emit (Printf.sprintf "r ok %s" (string_of_z n))
         | RPanic -> emit "r panic" | RCrash -> emit "r crash" | _ -> emit "r ?")
    | ("and" | "or") :: sid :: old :: fld :: o :: probe :: _ ->
        let mkop = if List.hd t = "and" then (fun a b c d e -> OAnd (a, b, c, d, e)) else (fun a b c d e -> OOr (a, b, c, d, e)) in
        (match do_step (mkop (n_of_int (int_of_string sid)) (n_of_int (int_of_string old)) (fld_of fld) (sop_of o) (key_of_tok probe)) with
         | RSearch (Some e, _) -> emit (Printf.sprintf "r %s 0" (rd (cls e)))
         | RSearch (None, n) -> emit (Printf.sprintf "r ok %s" (string_of_z n))
         | RPanic -> emit "r panic" | RCrash -> emit "r crash" | _ -> emit "r ?")
    | [ "len"; sid ] ->
        (* the length of a FAILED search is not an observable: how many entries a full scan had gathered before the
           read that failed is Go map order *)
        let failed = (find_srch !st.s_h (n_of_int (int_of_string sid))).sr_err <> None in
        (match do_step (OLen (n_of_int (int_of_string sid))) with
         | RNum (Ok n) -> emit ("r ok " ^ (if failed then "*" else string_of_z n))
         | _ -> emit "r ?")
    | [ "collect"; sid; lim; rv; mode ] ->
        let lim = ZZ.of_string lim in
        let limo = if ZZ.sign lim < 0 then None else Some (n_of_zz lim) in
        (match do_step (OCollect (n_of_int (int_of_string sid), limo, rv = "1")) with
         | RObjs (Ok l) -> print_objs (int_of_string mode) l
         | RObjs r -> emit ("r " ^ rd (cls_res r))
         | RPanic -> emit "r panic" | RCrash -> emit "r crash" | _ -> emit "r ?")
    | [ "one"; sid; mode ] ->
        (match do_step (OOne (n_of_int (int_of_string sid))) with
         | RObj (Ok x) -> print_objs (int_of_string mode) [ x ]
         | RObj r -> emit ("r " ^ rd (cls_res r))
         | RPanic -> emit "r panic" | RCrash -> emit "r crash" | _ -> emit "r ?")
    | [ "sdel"; sid ] -> unit_line (do_step (OSearchDelete (n_of_int (int_of_string sid))))
    | [ "aidx"; fld ] ->
        (match do_step (OAssignIndex (fld_of fld)) with
         | RKeys (Ok ks) -> emit ("r ok " ^ String.concat " " (List.map tok_of_key ks))
         | RKeys r -> emit ("r " ^ cls_res r)
         | RPanic -> emit "r panic" | RCrash -> emit "r crash" | _ -> emit "r ?")
    | [ ("flush1" | "flush1c"); r ] ->
        let (u, o) = parse_rec r in
        unit_line (do_step (OFlushOne (n_of_int u, o, List.hd t = "flush1c")))
    | [ "expects"; sid; n; z ] ->
        (match do_step (OExpects (n_of_int (int_of_string sid), z_of_int (int_of_string n), z = "1")) with
         | RSearch (Some e, _) -> emit (Printf.sprintf "r %s 0" (rd (cls e)))
         | RSearch (None, n) -> emit (Printf.sprintf "r ok %s" (string_of_z n))
         | RPanic -> emit "r panic" | RCrash -> emit "r crash" | _ -> emit "r ?")
    | [ "snapcheck" ] -> emit "r ok"
    | [ "commit" ] -> unit_line (do_step OCommit)
    | [ "flushall" ] -> unit_line (do_step OFlushAll)
    | [ "flushallc" ] -> unit_line (do_step OFlushAllCommit)
    | [ "control" ] -> unit_line (do_step OControl)
    | [ "repair" ] -> unit_line (do_step (ORepair (List.map n_of_int orc.order)))
    | [ "close" ] -> unit_line (do_step OClose)
    | [ "reopen" ] -> unit_line (do_step OReopen)
    | [ "vopen"; k ] ->
        (* another Go struct of the same name: 5 = reordered fields (same structure) *)
        let k = int_of_string k in
        live_shape := n_of_int (if k = 5 then 1 else k);
        unit_line (do_step OReopen)
    | [ "dirhash" ] -> emit "r ok"
    | [ "drop" ] -> unit_line (do_step ODrop)
    | [ "schema" ] -> unit_line (do_step OSchema)
    | [ "tick" ] -> unit_line (do_step OTick)
    | [ "failat"; k ] -> unit_line (do_step (OFailAt (nat_of_int (int_of_string k))))
    | [ "crashat"; k ] -> unit_line (do_step (OCrashAt (nat_of_int (int_of_string k))))
    | [ "dump" ] ->
        (match do_step OSchema with
         | RUnit (Ok _) ->
             emit "r ok";
             (match !st.s_h.h_mem with
              | Some m ->
                  print_index_lines "ids" "ix" m.m_idx m.m_fields;
                  emit (Printf.sprintf "s cfg cache=%s async=%s" (b2s m.m_set.st_cache) (b2s (m.m_set.st_async <> None)))
              | None -> emit "s ?")
         | r -> unit_line r)
    | [ "fs" ] -> print_fs c !st.s_w.w_disk
    | [ "rmfile"; u ] -> unit_line (do_step (XRmFile (n_of_int (int_of_string u))))
    | [ ("corrupt" | "truncfile"); u ] -> unit_line (do_step (XCorrupt (n_of_int (int_of_string u))))
    | [ "addfile"; r ] ->
        let (u, o) = parse_rec r in
        let sfx = match !st.s_w.w_disk.d_schema with
          | Some (SOk sf) -> suffix_of sf.sf_set
          | _ -> suffix_of (settings_of c) in
        unit_line (do_step (XAddFile (n_of_int u, sfx, o)))
    | [ "rmschema" ] -> unit_line (do_step XRmSchema)
    | [ "rmentry"; u ] -> unit_line (do_step (XRmEntry (n_of_int (int_of_string u))))
    | [ "rmfentry"; u; f ] -> unit_line (do_step (XRmFieldEntry (n_of_int (int_of_string u), nat_of_int (int_of_string f))))
    | [ "stray"; "nodot" ] -> unit_line (do_step (XStray (bytes_of_string "README")))
    | [ "stray"; "dot" ] -> unit_line (do_step (XStray (bytes_of_string "notes.txt")))
    | [ "stray"; "subdir" ] -> unit_line (do_step (XStray (bytes_of_string "sub.d")))
    | _ -> emit ("r unsupported " ^ String.concat " " t)
  in
  go lines

(* snake mode: one input string per line (hex), prints "<hex in> <hex out>" of the model's camel_to_snake *)
let snake_mode (path : string) =
  let ic = open_in path in
  (try
     while true do
       let l = String.trim (input_line ic) in
       print_endline (l ^ " " ^ hex_of_bytes (camel_to_snake (bytes_of_hex l)))
     done
   with End_of_file -> ())

(* ---------------------------------------------------------------- clone mode (C14)
   input lines:  orig <sexp>   /  clone <sexp>  (the implementation's clone, identities numbered by
   the harness with the SAME table as the original).  For every pair prints one line:
   the sharing bits and erased shape of the implementation's clone and of the MODEL's clone. *)
type tok = LP | RP | Atom of string
let tokenize (s : string) : tok list =
  let n = String.length s in
  let rec go i acc =
    if i >= n then List.rev acc
    else match s.[i] with
      | '(' -> go (i + 1) (LP :: acc)
      | ')' -> go (i + 1) (RP :: acc)
      | ' ' -> go (i + 1) acc
      | _ -> let j = ref i in
             while !j < n && s.[!j] <> ' ' && s.[!j] <> '(' && s.[!j] <> ')' do incr j done;
             go !j (Atom (String.sub s i (!j - i)) :: acc)
  in go 0 []

let rec parse_gv (ts : tok list) : gv * tok list =
  match ts with
  | LP :: Atom "s" :: Atom n :: RP :: r -> (GScalar (z_of_string n), r)
  | LP :: Atom "p0" :: RP :: r -> (GPtr None, r)
  | LP :: Atom "p" :: Atom l :: r -> let (v, r1) = parse_gv r in (match r1 with RP :: r2 -> (GPtr (Some (n_of_int (int_of_string l), v)), r2) | _ -> failwith "p")
  | LP :: Atom "l0" :: RP :: r -> (GSlice None, r)
  | LP :: Atom "l" :: Atom l :: r -> let (vs, r1) = parse_list r in (GSlice (Some (n_of_int (int_of_string l), vs)), r1)
  | LP :: Atom "m0" :: RP :: r -> (GMap None, r)
  | LP :: Atom "m" :: Atom l :: r -> let (bs, r1) = parse_binds r in (GMap (Some (n_of_int (int_of_string l), bs)), r1)
  | LP :: Atom "t" :: r -> let (fs, r1) = parse_binds r in (GStruct (List.map (fun (k, v) -> (Model.Z.eqb k (z_of_int 1), v)) fs), r1)
  | LP :: Atom "a" :: r -> let (vs, r1) = parse_list r in (GArr vs, r1)
  | LP :: Atom "i0" :: RP :: r -> (GIface None, r)
  | LP :: Atom "i" :: r -> let (v, r1) = parse_gv r in (match r1 with RP :: r2 -> (GIface (Some v), r2) | _ -> failwith "i")
  | _ -> failwith "bad value"
and parse_list (ts : tok list) : gv list * tok list =
  match ts with
  | RP :: r -> ([], r)
  | _ -> let (v, r1) = parse_gv ts in let (vs, r2) = parse_list r1 in (v :: vs, r2)
and parse_binds (ts : tok list) : (Model.z * gv) list * tok list =
  match ts with
  | RP :: r -> ([], r)
  | LP :: Atom k :: r -> let (v, r1) = parse_gv r in
      (match r1 with RP :: r2 -> let (bs, r3) = parse_binds r2 in ((z_of_string k, v) :: bs, r3) | _ -> failwith "bind")
  | _ -> failwith "bad binding"

let rec show_gv (v : gv) : string =
  match v with
  | GScalar n -> "(s " ^ string_of_z n ^ ")"
  | GPtr None -> "(p0)" | GPtr (Some (_, x)) -> "(p " ^ show_gv x ^ ")"
  | GSlice None -> "(l0)" | GSlice (Some (_, es)) -> "(l " ^ String.concat " " (List.map show_gv es) ^ ")"
  | GMap None -> "(m0)" | GMap (Some (_, bs)) -> "(m " ^ String.concat " " (List.map (fun (k, x) -> "(" ^ string_of_z k ^ " " ^ show_gv x ^ ")") bs) ^ ")"
  | GStruct fs -> "(t " ^ String.concat " " (List.map (fun (e, x) -> "(" ^ (if e then "1" else "0") ^ " " ^ show_gv x ^ ")") fs) ^ ")"
  | GArr es -> "(a " ^ String.concat " " (List.map show_gv es) ^ ")"
  | GIface None -> "(i0)" | GIface (Some x) -> "(i " ^ show_gv x ^ ")"

let clone_mode (path : string) =
  let ic = open_in path in
  let orig = ref None in
  (try
     while true do
       let l = input_line ic in
       if String.length l > 5 && String.sub l 0 5 = "orig " then
         orig := Some (fst (parse_gv (tokenize (String.sub l 5 (String.length l - 5)))))
       else if String.length l > 6 && String.sub l 0 6 = "clone " then begin
         match !orig with
         | None -> ()
         | Some o ->
             let ic_ = fst (parse_gv (tokenize (String.sub l 6 (String.length l - 6)))) in
             let mc = clone_value o (Model.N.succ (max_loc o)) in
             let bits v = String.concat "" (List.map (fun b -> if b then "1" else "0") (sharing o v)) in
             let a = Printf.sprintf "share=%s distinct=%b shape=%s" (bits ic_) (fresh_distinct o ic_) (show_gv (erase ic_)) in
             let b = Printf.sprintf "share=%s distinct=%b shape=%s" (bits mc) (fresh_distinct o mc) (show_gv (erase mc)) in
             if a = b then print_endline ("same " ^ bits mc) else print_endline ("DIFF impl[" ^ a ^ "] model[" ^ b ^ "]")
       end
     done
   with End_of_file -> ())


(* ---------------------------------------------------------------- descriptor mode (C16/C17)
   input (hz -descr): per case  T <type tree>, D <path> <type> <bits>..., V <value tree>, K <ids of
   string leaves>, X <path> <changed ids>..., P <variant type tree>, C <verdict> <verdict> <how>, E <i>.
   The model (Model/Descr.v) derives the descriptors of T, walks V along every path of an X line,
   derives the descriptors of P and compares the two tables; one line per comparison:
   "same ..." or "DIFF ...". *)
let xstr (a : string) : n list =
  if String.length a = 0 || a.[0] <> 'x' then failwith ("bad string atom " ^ a)
  else bytes_of_hex (String.sub a 1 (String.length a - 1))

let rec parse_ty (ts : tok list) : gty * tok list =
  match ts with
  | LP :: Atom "L" :: Atom n :: RP :: r -> (TLeaf (xstr n), r)
  | LP :: Atom "P" :: Atom n :: r ->
      let (e, r1) = parse_ty r in
      (match r1 with RP :: r2 -> (TPtr (xstr n, e), r2) | _ -> failwith "P")
  | LP :: Atom "S" :: Atom n :: Atom it :: r ->
      let (fs, r1) = parse_tfields r in (TStruct (xstr n, it = "1", fs), r1)
  | _ -> failwith "bad type tree"
and parse_tfields (ts : tok list) =
  match ts with
  | RP :: r -> ([], r)
  | LP :: Atom "F" :: Atom name :: Atom ex :: Atom tag :: r ->
      let (t, r1) = parse_ty r in
      (match r1 with
       | RP :: r2 -> let (fs, r3) = parse_tfields r2 in ((((xstr name, ex = "1"), xstr tag), t) :: fs, r3)
       | _ -> failwith "F")
  | _ -> failwith "bad field"

let rec parse_val (ts : tok list) : gval * tok list =
  match ts with
  | LP :: Atom "l" :: Atom n :: Atom id :: RP :: r -> (VLeaf (xstr n, n_of_int (int_of_string id)), r)
  | LP :: Atom "n" :: Atom n :: RP :: r -> (VNil (xstr n), r)
  | LP :: Atom "p" :: Atom n :: r ->
      let (v, r1) = parse_val r in
      (match r1 with RP :: r2 -> (VPtr (xstr n, v), r2) | _ -> failwith "p")
  | LP :: Atom "s" :: Atom n :: r -> let (fs, r1) = parse_vfields r in (VStruct (xstr n, fs), r1)
  | _ -> failwith "bad value tree"
and parse_vfields (ts : tok list) =
  match ts with
  | RP :: r -> ([], r)
  | LP :: Atom "f" :: Atom name :: r ->
      let (v, r1) = parse_val r in
      (match r1 with
       | RP :: r2 -> let (fs, r3) = parse_vfields r2 in ((xstr name, v) :: fs, r3)
       | _ -> failwith "f")
  | _ -> failwith "bad value field"

(* value trees for field path resolution (Model/Path.v): W lines *)
let rec parse_pval (ts : tok list) : pval * tok list =
  match ts with
  | LP :: Atom "l" :: Atom n :: Atom id :: RP :: r -> (PLeaf (xstr n, n_of_int (int_of_string id)), r)
  | LP :: Atom "n" :: Atom n :: r ->
      let (z, r1) = parse_pval r in
      (match r1 with RP :: r2 -> (PNil (xstr n, z), r2) | _ -> failwith "n")
  | LP :: Atom "p" :: Atom n :: r ->
      let (v, r1) = parse_pval r in
      (match r1 with RP :: r2 -> (PPtr (xstr n, v), r2) | _ -> failwith "p")
  | LP :: Atom "s" :: Atom n :: r -> let (fs, r1) = parse_pfields r in (PStruct (xstr n, fs), r1)
  | _ -> failwith "bad W tree"
and parse_pfields (ts : tok list) =
  match ts with
  | RP :: r -> ([], r)
  | LP :: Atom "f" :: Atom name :: Atom ex :: r ->
      let (v, r1) = parse_pval r in
      (match r1 with
       | RP :: r2 -> let (fs, r3) = parse_pfields r2 in ((xstr name, (ex = "1", v)) :: fs, r3)
       | _ -> failwith "f")
  | _ -> failwith "bad W field"

let bits_of_cons (c : cons) : string =
  (if c.c_index then "i" else "-") ^ (if c.c_unique then "u" else "-") ^
  (if c.c_upper then "U" else "-") ^ (if c.c_lower then "L" else "-")

let show_fd (d : fd) : string =
  "x" ^ hex_of_bytes d.fd_path ^ " x" ^ hex_of_bytes d.fd_type ^ " " ^ bits_of_cons d.fd_cons

let rec nat_of_int (i : int) : nat = if i <= 0 then O else S (nat_of_int (i - 1))

let descr_mode (path : string) =
  let ic = open_in path in
  let ty = ref None and impl_ds = ref [] and value = ref None and strs = ref [] and pvalue = ref None in
  let rest l k = String.sub l k (String.length l - k) in
  let flush_descr () =
    match !ty with
    | None -> ()
    | Some t ->
        let m = List.map show_fd (rec_fds t []) in
        let i = List.rev !impl_ds in
        if m = i then print_endline (Printf.sprintf "same descriptors %d" (List.length m))
        else print_endline ("DIFF descriptors impl[" ^ String.concat "; " i ^ "] model[" ^ String.concat "; " m ^ "]");
        impl_ds := []
  in
  let pending = ref false in
  (try
     while true do
       let l = input_line ic in
       if String.length l < 2 then ()
       else begin
         let tag = l.[0] in
         if tag <> 'D' && !pending then (flush_descr (); pending := false);
         match tag with
         | 'T' -> ty := Some (fst (parse_ty (tokenize (rest l 2)))); impl_ds := []; pending := true
         | 'D' -> impl_ds := rest l 2 :: !impl_ds
         | 'V' -> value := Some (fst (parse_val (tokenize (rest l 2))))
         | 'K' -> strs := List.filter (fun x -> x <> "") (String.split_on_char ',' (rest l 2))
         | 'X' ->
             (match String.split_on_char ' ' (rest l 2), !value with
              | [p; changed], Some v ->
                  let names = split_on dot (xstr p) in
                  let target =
                    match reach (nat_of_int 64) names v with
                    | Some (VLeaf (_, id)) -> let s = string_of_int (int_of_n id) in if List.mem s !strs then s else "-"
                    | _ -> "-" in
                  if target = changed then print_endline ("same walk " ^ target)
                  else print_endline ("DIFF walk path " ^ p ^ " impl changed [" ^ changed ^ "] model target [" ^ target ^ "]")
              | _ -> print_endline ("DIFF bad X line " ^ l))
         | 'W' -> pvalue := Some (fst (parse_pval (tokenize (rest l 2))))
         | 'R' ->
             (match String.split_on_char ' ' (rest l 2), !pvalue with
              | [p; ok; ci; tn; id], Some o ->
                  let names = split_on dot (xstr p) in
                  let m =
                    match vfbn (nat_of_int 200) false o names with
                    | None -> "0 - - -"
                    | Some (v, ro) ->
                        let ids = match v with PLeaf (_, i) -> string_of_int (int_of_n i) | _ -> "-" in
                        Printf.sprintf "1 %s x%s %s" (if ro then "0" else "1") (hex_of_bytes (ptname v)) ids in
                  let i = Printf.sprintf "%s %s %s %s" ok ci tn id in
                  if m = i then print_endline ("same path " ^ (if ok = "0" then "unknown" else if ci = "0" then "read-only" else "resolved"))
                  else print_endline ("DIFF path " ^ p ^ " impl[" ^ i ^ "] model[" ^ m ^ "]")
              | _ -> print_endline ("DIFF bad R line " ^ l))
         | 'P' ->
             (match !ty with
              | Some t ->
                  let p = fst (parse_ty (tokenize (rest l 2))) in
                  let m1 = field_descriptors t and m2 = field_descriptors p in
                  let v o = match o with None -> "ok" | Some _ -> "refused" in
                  value := None;
                  strs := [v (compatible_with m1 m2); v (fields_compatible_with m1 m2)]
              | None -> ())
         | 'C' ->
             (match String.split_on_char ' ' (rest l 2), !strs with
              | c :: f :: _, [mc; mf] ->
                  let norm x = if x = "ok" then "ok" else "refused" in
                  if norm c = mc && norm f = mf then print_endline ("same compat " ^ mc ^ " " ^ mf)
                  else print_endline ("DIFF compat impl[" ^ c ^ " " ^ f ^ "] model[" ^ mc ^ " " ^ mf ^ "]")
              | _ -> print_endline ("DIFF bad C line " ^ l))
         | _ -> ()
       end
     done
   with End_of_file -> ());
  if !pending then flush_descr ()


(* ---------------------------------------------------------------- names mode (C18)
   input (hz -names): N x<name> x<uuid part> x<extension> <listed 0|1>; the model's uuid_ext and
   uuid_shaped on the same name *)
let names_mode (path : string) =
  let ic = open_in path in
  (try
     while true do
       let l = input_line ic in
       match String.split_on_char ' ' l with
       | [ "N"; name; u; e; listed ] ->
           let nm = xstr name in
           let (mu, me) = uuid_ext nm in
           let ml = match listed_uuid nm with Some _ -> "1" | None -> "0" in
           let a = Printf.sprintf "x%s x%s %s" (hex_of_bytes mu) (hex_of_bytes me) ml in
           let b = Printf.sprintf "%s %s %s" u e listed in
           if a = b then print_endline ("same name " ^ ml) else print_endline ("DIFF name " ^ name ^ " impl[" ^ b ^ "] model[" ^ a ^ "]")
       | _ -> ()
     done
   with End_of_file -> ())

(* ---------------------------------------------------------------- time keys mode (C02 / C13)
   input (hz -timekey):
     tk <sec> <nsec> <key in the index> <sec> <nsec of what AssignIndex returned>
     ts <probe sec> <probe nsec> <operator> <selected objects, one 0/1 per object> <sec:nsec of every object>
   the model's time_key / key_time (Model/Norm.v) and the comparison of KEYS (Base.key_ltb / key_eqb) *)
let timekey_mode (path : string) =
  let ic = open_in path in
  let tm s n = { t_sec = z_of_string s; t_nsec = z_of_string n } in
  (try
     while true do
       let l = input_line ic in
       match String.split_on_char ' ' l with
       | [ "tk"; s; n; key; bs; bn ] ->
           let t = tm s n in
           let k = time_key t in
           let b = key_time k in
           let a = Printf.sprintf "%s %s %s" (string_of_z k) (string_of_z b.t_sec) (string_of_z b.t_nsec) in
           let i = Printf.sprintf "%s %s %s" key bs bn in
           let rg = if in_unixnano_range t then "in-range" else "out-of-range" in
           if a = i then print_endline ("same tk " ^ rg) else print_endline ("DIFF tk " ^ s ^ " " ^ n ^ " impl[" ^ i ^ "] model[" ^ a ^ "]")
       | "ts" :: ps :: pn :: op :: sel :: objs ->
           let pk = KInt (time_key (tm ps pn)) in
           let one o =
             match String.split_on_char ':' o with
             | [ s; n ] ->
                 let k = KInt (time_key (tm s n)) in
                 let lt = key_ltb k pk and eq = key_eqb k pk and gt = key_ltb pk k in
                 let r = (match op with
                   | "=" -> eq | "!=" -> not eq | "<" -> lt | "<=" -> lt || eq | ">" -> gt | ">=" -> gt || eq | _ -> false) in
                 if r then "1" else "0"
             | _ -> "?" in
           let m = String.concat "" (List.map one objs) in
           if m = sel then print_endline "same ts" else print_endline ("DIFF ts " ^ l ^ " model[" ^ m ^ "]")
       | _ -> ()
     done
   with End_of_file -> ())

(* ---------------------------------------------------------------- linearizability mode (C08)
   A concurrent history recorded on ONE handle (hz -lin): a sequential prefix in the usual trace
   format, the line "conc", then one line per concurrent call
       c <goroutine> <inv> <resp> <op tokens ...> => <observed r line>
   with logical invocation / response times.  Wing-Gong search: is there a total order of the
   calls, compatible with real time (a call that returned before another one was invoked comes
   first), along which the EXTRACTED SEQUENTIAL MODEL returns exactly the observed results? *)
type call = { cg : int; inv : int; resp : int; ctoks : string list; cobs : string }

let lin_exec (s0 : state) (t : string list) : state * string =
  let stp o = step (hooks ()) !live_shape s0 o in
  let unit_s r = match r with RUnit x -> "r " ^ cls_res x | RPanic -> "r panic" | RCrash -> "r crash" | _ -> "r ?" in
  match t with
  | [ "ins"; r ] -> let (u, o) = parse_rec r in let (s1, x) = stp (OInsert (n_of_int u, n_of_int 0, o)) in (s1, unit_s x)
  | "many" :: ms ->
      let mm = List.map (fun r -> let (u, o) = parse_rec r in MRec (n_of_int u, n_of_int 0, o)) ms in
      (match stp (OMany mm) with
       | (s1, RMany (r, n)) -> (s1, Printf.sprintf "r %s %s" (cls_res r) (string_of_z n))
       | (s1, _) -> (s1, "r ?"))
  | [ "del"; u ] -> let (s1, x) = stp (ODelete (n_of_int (int_of_string u))) in (s1, unit_s x)
  | [ "get"; u ] ->
      (match stp (OGet (n_of_int (int_of_string u))) with
       | (s1, RObj (Ok (u, o))) -> (s1, "r ok " ^ rec_tok u o)
       | (s1, RObj r) -> (s1, "r " ^ cls_res r)
       | (s1, _) -> (s1, "r ?"))
  | [ "exist"; u ] ->
      (match stp (OExist (n_of_int (int_of_string u))) with
       | (s1, RBool (Ok b)) -> (s1, "r ok " ^ b2s b)
       | (s1, RBool r) -> (s1, "r " ^ cls_res r ^ " 0")
       | (s1, _) -> (s1, "r ?"))
  | [ "count" ] ->
      (match stp OCount with
       | (s1, RNum (Ok n)) -> (s1, "r ok " ^ string_of_z n)
       | (s1, RNum r) -> (s1, "r " ^ cls_res r ^ " 0")
       | (s1, _) -> (s1, "r ?"))
  | [ "all" ] ->
      (match stp OAll with
       | (s1, RObjs (Ok l)) ->
           let toks = List.map (fun (u, o) -> (int_of_n u, rec_tok u o)) l in
           let toks = List.stable_sort (fun (a, _) (b, _) -> compare a b) toks in
           (s1, String.trim (Printf.sprintf "r ok %d %s" (List.length l) (String.concat " " (List.map snd toks))))
       | (s1, RObjs r) -> (s1, "r " ^ rd (cls_res r))
       | (s1, _) -> (s1, "r ?"))
  | _ -> (s0, "r unsupported")

let lin_search (s0 : state) (calls : call list) : (call list) option =
  let nodes = ref 0 in
  let rec go (s : state) (rem : call list) (acc : call list) : call list option =
    incr nodes;
    if !nodes > 2000000 then raise Exit;
    match rem with
    | [] -> Some (List.rev acc)
    | _ ->
        let minresp = List.fold_left (fun m c -> min m c.resp) max_int rem in
        let cands = List.filter (fun c -> c.inv < minresp) rem in
        let rec try_ = function
          | [] -> None
          | c :: more ->
              let (s1, out) = lin_exec s c.ctoks in
              if String.trim out = String.trim c.cobs then
                (match go s1 (List.filter (fun x -> x != c) rem) (c :: acc) with
                 | Some l -> Some l
                 | None -> try_ more)
              else try_ more
        in
        try_ cands
  in
  go s0 calls []

let lin_mode (path : string) =
  let ic = open_in path in
  let lines = ref [] in
  (try while true do lines := input_line ic :: !lines done with End_of_file -> ());
  let lines = List.rev !lines in
  (* split into histories *)
  let flush_one (hl : string list) =
    match hl with
    | [] -> ()
    | first :: _ ->
        let rec split pre = function
          | [] -> (List.rev pre, [])
          | "conc" :: r -> (List.rev pre, r)
          | l :: r -> split (l :: pre) r in
        let (pre, conc) = split [] hl in
        Buffer.clear out;
        run_history pre;
        Buffer.clear out;
        let calls = List.filter_map (fun l ->
            let tk = List.filter (fun s -> s <> "") (String.split_on_char ' ' l) in
            match tk with
            | "c" :: g :: i :: r :: rest ->
                let rec cut acc = function
                  | "=>" :: obs -> (List.rev acc, String.concat " " obs)
                  | x :: more -> cut (x :: acc) more
                  | [] -> (List.rev acc, "") in
                let (ct, obs) = cut [] rest in
                Some { cg = int_of_string g; inv = int_of_string i; resp = int_of_string r; ctoks = ct; cobs = obs }
            | _ -> None) conc in
        let verdict =
          try (match lin_search !st calls with
               | Some order -> "ok " ^ String.concat "," (List.map (fun c -> string_of_int c.inv) order)
               | None -> "NOT-LINEARIZABLE")
          with Exit -> "gave-up" in
        print_endline (Printf.sprintf "lin %s calls=%d %s" first (List.length calls) verdict)
  in
  let cur = ref [] in
  List.iter (fun l ->
      if String.length l >= 5 && String.sub l 0 5 = "hist " then (flush_one (List.rev !cur); cur := [ l ])
      else cur := l :: !cur) lines;
  flush_one (List.rev !cur)

let () =
  if Array.length Sys.argv > 2 && Sys.argv.(1) = "-lin" then (lin_mode Sys.argv.(2); exit 0);
  if Array.length Sys.argv > 2 && Sys.argv.(1) = "-snake" then (snake_mode Sys.argv.(2); exit 0);
  if Array.length Sys.argv > 2 && Sys.argv.(1) = "-names" then (names_mode Sys.argv.(2); exit 0);
  if Array.length Sys.argv > 2 && Sys.argv.(1) = "-timekey" then (timekey_mode Sys.argv.(2); exit 0);
  if Array.length Sys.argv > 2 && Sys.argv.(1) = "-descr" then (descr_mode Sys.argv.(2); exit 0);
  if Array.length Sys.argv > 2 && Sys.argv.(1) = "-clone" then (clone_mode Sys.argv.(2); exit 0);
  let ic = if Array.length Sys.argv > 1 then open_in Sys.argv.(1) else stdin in
  let cur = ref [] in
  let flush_hist () =
    if !cur <> [] then begin
      (try run_history (List.rev !cur)
       with e -> emit ("r driver-exception " ^ Printexc.to_string e));
      cur := []
    end in
  (try
     while true do
       let l = input_line ic in
       if String.length l >= 5 && String.sub l 0 5 = "hist " then flush_hist ();
       cur := l :: !cur
     done
   with End_of_file -> ());
  flush_hist ();
  print_string (Buffer.contents out)
